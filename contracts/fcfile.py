"""Property C11 (forecast files): GriddedForecast.load_ascii under contract.
The text file is an abstract table of any number of rows (numpy.loadtxt: assumed string layer) in the CSEP1 layout the
property states: C spatial cells x M magnitude bins, magnitude fastest, every row of a cell repeating the cell's box and flag,
every cell listing the same M lower magnitude edges; distinct cells have distinct boxes, distinct bins distinct edges.
Proved for every C >= 1 and M >= 1: the region is built from exactly C polygons - polygon c is the box of file cell c, in file
order, with the flag of cell c -, dh is the (rounded) height of the first box, the magnitudes are the M lower edges in file order
and data[c, m] is the rate written in row c*M + m; the reshape cannot fail.
`CartesianGrid2D`, `Polygon` and the forecast class are abstract record constructors here (the real region constructor:
contracts/regions.py, the real data-set constructors: contracts/forecasts.py).

Integer layout facts used (row r <-> (cell, bin) = (r div M, r mod M)) are the Euclidean-division lemmas L10 of the Lean library;
`two strictly increasing enumerations of the same finite set coincide` is L9."""
import z3

from pyvc.contracts import contract
from pyvc.core import Arr, Lam, Opaque, SymList, simp, to_real, to_z3
from pyvc.lib import ROUND_DEC

LOAD = 'csep.core.forecasts.GriddedForecast.load_ascii'
FC_MOD = 'csep.core.forecasts'
I_, R_ = z3.IntSort(), z3.RealSort()


class Layout:
    """ghost description of a CSEP1 forecast file of C cells x M bins"""

    def __init__(self, c):
        ctx = c.ctx
        self.C, self.M, self.n = c.int('n_cells'), c.int('n_mag_bins'), c.int('n_rows')
        self.COL = [ctx.fresh_fun('file_col%d' % k, I_, R_) for k in range(10)]
        self.CELL, self.MAGI, self.BASE = (ctx.fresh_fun(nm, I_, I_) for nm in ('cell_of_row', 'bin_of_row', 'first_row_of_cell'))
        self.ROW = ctx.fresh_fun('row_of', I_, I_, I_)
        self.LON0, self.LON1, self.LAT0, self.LAT1, self.FLAG = (ctx.fresh_fun(nm, I_, R_) for nm in ('lon0', 'lon1', 'lat0', 'lat1', 'flag'))
        self.MAG0 = ctx.fresh_fun('mag0', I_, R_)

    def box_eq(self, a, b):
        return z3.And(self.LON0(a) == self.LON0(b), self.LON1(a) == self.LON1(b), self.LAT0(a) == self.LAT0(b), self.LAT1(a) == self.LAT1(b))

    def product_instance(self, a):
        """BASE(a) == a*M at one index (the only place a product is needed: the reshape of the rate column)"""
        return self.BASE(a) == a * self.M

    def division_facts(self):
        """Euclidean division of the row number by M (Lean: L10_*), stated over BASE(c) = c*M and ROW(c, m) = c*M + m"""
        C, M, n, CELL, MAGI, BASE, ROW = self.C, self.M, self.n, self.CELL, self.MAGI, self.BASE, self.ROW
        r, a, b, m = z3.Ints('r!lay a!lay b!lay m!lay')
        return [
            z3.And(C >= 1, M >= 1, n == C * M, BASE(0) == 0, BASE(C) == n),
            z3.ForAll([a, b], z3.Implies(z3.And(0 <= a, a < b), BASE(a) + M <= BASE(b)), patterns=[z3.MultiPattern(BASE(a), BASE(b))]),
            z3.ForAll([r], z3.Implies(z3.And(0 <= r, r < n), z3.And(0 <= CELL(r), CELL(r) < C, 0 <= MAGI(r), MAGI(r) < M,
                                                                      r == BASE(CELL(r)) + MAGI(r), r == ROW(CELL(r), MAGI(r)))),
                      patterns=[CELL(r), MAGI(r)]),
            z3.ForAll([a, m], z3.Implies(z3.And(0 <= a, a < C, 0 <= m, m < M),
                                         z3.And(ROW(a, m) == BASE(a) + m, 0 <= ROW(a, m), ROW(a, m) < n, CELL(ROW(a, m)) == a, MAGI(ROW(a, m)) == m)),
                      patterns=[ROW(a, m)]),
        ]

    def content_facts(self):
        C, M, n, COL, CELL, MAGI = self.C, self.M, self.n, self.COL, self.CELL, self.MAGI
        r, a, b = z3.Ints('r!lay a!lay b!lay')
        return [
            z3.ForAll([r], z3.Implies(z3.And(0 <= r, r < n), z3.And(
                COL[0](r) == self.LON0(CELL(r)), COL[1](r) == self.LON1(CELL(r)), COL[2](r) == self.LAT0(CELL(r)), COL[3](r) == self.LAT1(CELL(r)),
                COL[9](r) == self.FLAG(CELL(r)), COL[6](r) == self.MAG0(MAGI(r)))),
                patterns=[COL[0](r), COL[1](r), COL[2](r), COL[3](r), COL[9](r), COL[6](r)]),
            z3.ForAll([a, b], z3.Implies(z3.And(0 <= a, a < b, b < C), z3.Not(self.box_eq(a, b))), patterns=[z3.MultiPattern(self.LON0(a), self.LON0(b))]),
            z3.ForAll([a, b], z3.Implies(z3.And(0 <= a, a < b, b < M), self.MAG0(a) != self.MAG0(b)), patterns=[z3.MultiPattern(self.MAG0(a), self.MAG0(b))]),
        ]


def stubs(c):
    """abstract record constructors for Polygon, CartesianGrid2D and the forecast class"""
    def polygon(points):
        return Opaque('polygon', points=points)

    def grid(polygons, dh, mask=None, **kw):
        if kw:
            raise AssertionError('unexpected keyword for the region constructor: %r' % sorted(kw))
        return Opaque('region', polygons=polygons, dh=dh, mask=mask, num_nodes=(polygons.n if isinstance(polygons, SymList) else len(polygons)))

    def forecast(start_date=None, end_date=None, name=None, **kw):
        return Opaque('forecast', start_date=start_date, end_date=end_date, fc_name=name, **kw)
    c.ctx.ghost['global_overrides'] = {(FC_MOD, 'Polygon'): Lam(polygon, 'Polygon'), (FC_MOD, 'CartesianGrid2D'): Lam(grid, 'CartesianGrid2D')}
    return Lam(forecast, 'cls')


def _same_enumeration_hints(c, lay, occ, g, count, what, w1, w2):
    """U == count and FO(j) == g(j): both FO and g enumerate the first-occurrence rows increasingly (Lean L9_enum_unique; its
    two existential hypotheses are given with explicit witnesses: FO(j) == g(w1(j)), g(k) == FO(w2(k)))"""
    U, FO = occ['U'], occ['FO']
    j, j2, k = z3.Ints('j!en j2!en k!en')
    yield ('hint:L9 hypothesis (%s): every first occurrence is enumerated' % what,
           z3.ForAll([j], z3.Implies(z3.And(0 <= j, j < U), z3.And(0 <= w1(j), w1(j) < count, g(w1(j)) == FO(j))), patterns=[FO(j)]))
    yield ('hint:L9 hypothesis (%s): every enumerated row is a first occurrence' % what,
           z3.ForAll([k], z3.Implies(z3.And(0 <= k, k < count), z3.And(0 <= w2(k), w2(k) < U, FO(w2(k)) == g(k))), patterns=[w2(k)]))
    hyp = z3.And(
        z3.ForAll([j, j2], z3.Implies(z3.And(0 <= j, j < j2, j2 < U), FO(j) < FO(j2))),
        z3.ForAll([j, j2], z3.Implies(z3.And(0 <= j, j < j2, j2 < count), g(j) < g(j2))),
        z3.ForAll([j], z3.Implies(z3.And(0 <= j, j < U), z3.And(0 <= w1(j), w1(j) < count, g(w1(j)) == FO(j)))),
        z3.ForAll([k], z3.Implies(z3.And(0 <= k, k < count), z3.And(0 <= w2(k), w2(k) < U, FO(w2(k)) == g(k)))))
    concl = z3.And(U == count, z3.ForAll([j], z3.Implies(z3.And(0 <= j, j < U), FO(j) == g(j)), patterns=[FO(j)]))
    yield ('hint:L9.enum_unique: %s' % what, hyp, concl)


def _directed_files():
    """concrete forecast files (conventions of rt/oracles_io.forecast_ascii) read by load_ascii itself: cells listed in an order
    that is not the sorted one, flagged cells, one row, swapped columns"""
    base = dict(lon0='10', lat0='40', dh='0.5', dmag='0.1', via='load_ascii')
    return [('forecast_ascii', dict(base, cells=[[1, 1], [0, 0], [1, 0], [0, 1]], mags=['4.95', '5.05', '5.15'])),
            ('forecast_ascii', dict(base, cells=[[2, 0], [0, 0], [1, 0]], mags=['4.95', '5.05'], flags=[1, 0, 1])),
            ('forecast_ascii', dict(base, cells=[[0, 0]], mags=['4.95'])),
            ('forecast_ascii', dict(base, cells=[[0, 1], [0, 0], [1, 1]], mags=['4.95', '5.05'], swap_latlon=True)),
            ('forecast_ascii', dict(base, lon0='-125.4', lat0='54.7', dh='0.1', cells=[[0, 1], [0, 0], [1, 0]], mags=['4.95', '5.05']))]


@contract
class LoadAscii:
    directed = staticmethod(_directed_files)
    qualname = LOAD
    case = 'CSEP1 file of C cells x M magnitude bins (magnitude fastest), any C, M >= 1; name given, swap_latlon False'
    properties = ('C11', 'C20')
    swap = False

    def params(c):
        lay = Layout(c)
        c.ctx.ghost['fc_layout'] = lay
        c.ctx.ghost.setdefault('files', {})['forecast.dat'] = ('table2d', lay.n, lay.COL)
        cls = stubs(c)
        return dict(cls=cls, ascii_fname='forecast.dat', start_date=Opaque('start'), end_date=Opaque('end'), name='fc',
                    swap_latlon=False, _lay=lay, _k=c.int('cell'), _m=c.int('bin'))

    def requires(c, cls, ascii_fname, start_date, end_date, name, swap_latlon, _lay, _k, _m):
        c.I.used_lemmas.add('L10.row_layout')
        c.I.used_lemmas.add('L9.enum_unique')
        return _lay.division_facts() + _lay.content_facts() + [_lay.product_instance(_k)]

    def lemmas(c, r, lay):
        """the two uses of unique/sort: first occurrences of boxes are the rows BASE(c); of magnitudes the rows 0..M-1"""
        occs = c.ctx.ghost.get('first_occurrences', [])
        if len(occs) != 2:
            return
        j = z3.Int('j!h')
        # boxes: a first-occurrence row is the first row of its cell
        occ = occs[0]
        yield ('hint:first occurrence of a box is the first row of its cell',
               z3.ForAll([j], z3.Implies(z3.And(0 <= j, j < occ['U']),
                                         z3.And(lay.COL[0](lay.ROW(lay.CELL(occ['FO'](j)), 0)) == lay.COL[0](occ['FO'](j)), lay.MAGI(occ['FO'](j)) == 0)),
                         patterns=[occ['FO'](j)]))
        yield ('hint:the first row of every cell is a first occurrence',
               z3.ForAll([j], z3.Implies(z3.And(0 <= j, j < lay.C), occ['FO'](occ['J'](lay.BASE(j))) == lay.BASE(j)), patterns=[lay.BASE(j)]))
        FOc, Jc = occ['FO'], occ['J']
        yield from _same_enumeration_hints(c, lay, occ, lay.BASE, lay.C, 'cells', lambda j: lay.CELL(FOc(j)), lambda k: Jc(lay.BASE(k)))
        occ = occs[1]
        yield ('hint:first occurrence of a magnitude edge lies in the first cell',
               z3.ForAll([j], z3.Implies(z3.And(0 <= j, j < occ['U']),
                                         z3.And(lay.COL[6](lay.ROW(0, lay.MAGI(occ['FO'](j)))) == lay.COL[6](occ['FO'](j)),
                                                lay.ROW(0, lay.MAGI(occ['FO'](j))) == lay.MAGI(occ['FO'](j)), lay.CELL(occ['FO'](j)) == 0)),
                         patterns=[occ['FO'](j)]))
        yield ('hint:every row of the first cell is a first occurrence',
               z3.ForAll([j], z3.Implies(z3.And(0 <= j, j < lay.M), occ['FO'](occ['J'](j)) == j), patterns=[occ['J'](j)]))
        FOm, Jm = occ['FO'], occ['J']
        yield from _same_enumeration_hints(c, lay, occ, lambda k: k, lay.M, 'magnitude bins', lambda j: FOm(j), lambda k: Jm(k))

    def ensures(c, r, cls, ascii_fname, start_date, end_date, name, swap_latlon, _lay, _k, _m):
        lay = _lay
        yield 'returns what the class constructor returns', z3.BoolVal(isinstance(r, Opaque) and r.name == 'forecast')
        if not (isinstance(r, Opaque) and r.name == 'forecast'):
            return
        yield from LoadAscii.lemmas(c, r, lay)
        reg = r.region
        yield 'start date, end date and name are passed through', z3.BoolVal(r.start_date is start_date and r.end_date is end_date and r.fc_name == (name if name is not None else 'forecast'))
        yield 'the region is built by CartesianGrid2D from a list of polygons', z3.BoolVal(isinstance(reg, Opaque) and reg.name == 'region'
                                                                                         and isinstance(reg.polygons, SymList))
        if not (isinstance(reg, Opaque) and reg.name == 'region' and isinstance(reg.polygons, SymList)):
            return
        yield 'one polygon per spatial cell of the file', to_z3(reg.polygons.n) == lay.C
        k, m = _k, _m
        ink = z3.And(0 <= k, k < lay.C)
        p = reg.polygons.f(k)
        ok = isinstance(p, Opaque) and p.name == 'polygon' and isinstance(p.points, tuple) and len(p.points) == 4 and all(isinstance(q, tuple) and len(q) == 2 for q in p.points)
        yield 'polygon k is a box of four corner points', z3.BoolVal(ok)
        if ok:
            # columns 0..3 of the file: lon_0, lon_1, lat_0, lat_1 (swap_latlon: lat_0, lat_1, lon_0, lon_1); points are (lon, lat)
            c0, c1, c2, c3 = lay.LON0(k), lay.LON1(k), lay.LAT0(k), lay.LAT1(k)
            x0, x1, y0, y1 = (c2, c3, c0, c1) if swap_latlon else (c0, c1, c2, c3)
            pts = [(to_real(q[0]), to_real(q[1])) for q in p.points]
            yield 'polygon k starts at the origin (lon_0, lat_0) of file cell k (cells in file order)', \
                z3.Implies(ink, z3.And(pts[0][0] == x0, pts[0][1] == y0))
            yield 'the points of polygon k are the four corners of the box of file cell k', \
                z3.Implies(ink, z3.And(*[z3.Or(*[z3.And(q[0] == wx, q[1] == wy) for q in pts]) for wx, wy in ((x0, y0), (x0, y1), (x1, y1), (x1, y0))]))
        mask = reg.mask
        yield 'the region mask has one flag per cell', z3.BoolVal(isinstance(mask, Arr) and mask.ndim == 1) if not isinstance(mask, Arr) else to_z3(mask.shape[0]) == lay.C
        if isinstance(mask, Arr) and mask.ndim == 1:
            yield 'mask[k] == the flag of file cell k', z3.Implies(ink, to_real(mask.f((k,))) == lay.FLAG(k))
        yield 'dh == the height of the first box, rounded to 10 decimals', \
            to_real(reg.dh) == ROUND_DEC(lay.LAT1(0) - lay.LAT0(0), z3.IntVal(10)) if is_num(reg.dh) else z3.BoolVal(False)
        # (columns 2 and 3 in either layout: with swap_latlon the code takes the longitude extent - square cells, as the format requires)
        mags = r.magnitudes
        yield 'magnitudes: one lower edge per bin', to_z3(mags.shape[0]) == lay.M if isinstance(mags, Arr) and mags.ndim == 1 else z3.BoolVal(False)
        if isinstance(mags, Arr) and mags.ndim == 1:
            yield 'magnitudes[m] == lower edge of bin m, in file order', z3.Implies(z3.And(0 <= m, m < lay.M), to_real(mags.f((m,))) == lay.MAG0(m))
        data = r.data
        ok = isinstance(data, Arr) and data.ndim == 2
        yield 'data has shape (cells, bins)', z3.And(to_z3(data.shape[0]) == lay.C, to_z3(data.shape[1]) == lay.M) if ok else z3.BoolVal(False)
        if ok:
            yield 'data[k, m] == the rate written in the row of (cell k, bin m)', \
                z3.Implies(z3.And(ink, 0 <= m, m < lay.M), to_real(data.f((k, m))) == lay.COL[8](lay.ROW(k, m)))

    def raises(c, exc, cls, ascii_fname, start_date, end_date, name, swap_latlon, _lay, _k, _m):
        yield from LoadAscii.lemmas(c, None, _lay)
        yield 'no exception (the reshape of the rate column fits: rows == cells x bins)', z3.BoolVal(False)


@contract
class LoadAsciiSwapped(LoadAscii):
    case = 'CSEP1 file with latitude columns first (swap_latlon True), any C, M >= 1'

    def params(c):
        p = LoadAscii.params(c)
        p['swap_latlon'] = True
        return p


@contract
class LoadAsciiUnnamed(LoadAscii):
    case = 'CSEP1 file, name not given: the forecast is named after the file'

    def params(c):
        p = LoadAscii.params(c)
        p['name'] = None
        return p


def is_num(v):
    from pyvc.core import is_sym
    return isinstance(v, (int, float)) or is_sym(v)


# ------------------------------------------------------------------ quadtree forecast files (csep.utils.readers)
from pyvc.lib import STR_NUM      # noqa: E402

QASCII = 'csep.utils.readers.quadtree_ascii_loader'
QCSV = 'csep.utils.readers.quadtree_csv_loader'
RD_MOD = 'csep.utils.readers'


def quadtree_stub(c):
    """QuadtreeGrid2D.from_quadkeys as an abstract record constructor (the real one: contracts/quadtree.py, C17)"""
    def from_quadkeys(quadk, magnitudes=None, name=None):
        n = quadk.shape[0] if isinstance(quadk, Arr) else len(quadk)
        return Opaque('qregion', quadkeys=quadk, magnitudes=magnitudes, n_quadkeys=n)
    c.ctx.ghost['global_overrides'] = {(RD_MOD, 'QuadtreeGrid2D'): Opaque('QuadtreeGrid2D', from_quadkeys=Lam(from_quadkeys, 'from_quadkeys'))}


class QLayout(Layout):
    """quadtree ASCII file: 10 text columns `quadkey lon0 lon1 lat0 lat1 z0 z1 m0 m1 rate`, C cells x M bins, bin fastest"""

    def __init__(self, c):
        Layout.__init__(self, c)
        self.STRID = c.ctx.fresh_fun('field', I_, I_, I_)
        self.QK = c.ctx.fresh_fun('quadkey_of_cell', I_, I_)
        self.COL = [(lambda r, k=k: STR_NUM(self.STRID(r, z3.IntVal(k)))) for k in range(10)]

    def content_facts(self):
        C, M, n, CELL, MAGI, STRID = self.C, self.M, self.n, self.CELL, self.MAGI, self.STRID
        r, a, b = z3.Ints('r!lay a!lay b!lay')
        return [
            z3.ForAll([r], z3.Implies(z3.And(0 <= r, r < n), z3.And(STRID(r, 0) == self.QK(CELL(r)), self.COL[7](r) == self.MAG0(MAGI(r)))),
                      patterns=[STRID(r, 0), STRID(r, 7)]),
            z3.ForAll([a, b], z3.Implies(z3.And(0 <= a, a < b, b < C), self.QK(a) != self.QK(b)), patterns=[z3.MultiPattern(self.QK(a), self.QK(b))]),
            z3.ForAll([a, b], z3.Implies(z3.And(0 <= a, a < b, b < M), self.MAG0(a) != self.MAG0(b)), patterns=[z3.MultiPattern(self.MAG0(a), self.MAG0(b))]),
        ]


def _directed_quadtree(layout):
    def fam():
        keys = ['0', '10', '11', '12', '13', '2', '3']
        return [('forecast_quadtree', dict(quadkeys=keys, mags=['4.95', '5.05', '5.15'], dmag='0.1', layout=layout)),
                ('forecast_quadtree', dict(quadkeys=['3', '0', '2', '1'], mags=['4.95', '5.05'], dmag='0.1', layout=layout)),
                ('forecast_quadtree', dict(quadkeys=['0', '1', '2', '3'], mags=['4.95'], dmag='0.1', layout=layout))]
    return fam


@contract
class QuadtreeAsciiLoader:
    directed = staticmethod(_directed_quadtree('ascii'))
    qualname = QASCII
    case = 'quadtree ASCII file of C cells x M magnitude bins (magnitude fastest), any C, M >= 1'
    properties = ('C11',)

    def params(c):
        lay = QLayout(c)
        c.ctx.ghost.setdefault('files', {})['forecast.dat'] = ('strtable', lay.n, 10, lay.STRID)
        quadtree_stub(c)
        return dict(ascii_fname='forecast.dat', _lay=lay, _k=c.int('cell'), _m=c.int('bin'))

    def requires(c, ascii_fname, _lay, _k, _m):
        c.I.used_lemmas.add('L10.row_layout')
        c.I.used_lemmas.add('L9.enum_unique')
        return _lay.division_facts() + _lay.content_facts() + [_lay.product_instance(_k)]

    def lemmas(c, lay):
        occs = c.ctx.ghost.get('first_occurrences', [])
        if len(occs) != 2:
            return
        j = z3.Int('j!h')
        occ = occs[0]
        FOc, Jc = occ['FO'], occ['J']
        yield ('hint:first occurrence of a quadkey is the first row of its cell',
               z3.ForAll([j], z3.Implies(z3.And(0 <= j, j < occ['U']),
                                         z3.And(lay.STRID(lay.ROW(lay.CELL(FOc(j)), 0), 0) == lay.STRID(FOc(j), 0), lay.MAGI(FOc(j)) == 0)),
                         patterns=[FOc(j)]))
        yield ('hint:the first row of every cell is a first occurrence',
               z3.ForAll([j], z3.Implies(z3.And(0 <= j, j < lay.C), FOc(Jc(lay.BASE(j))) == lay.BASE(j)), patterns=[lay.BASE(j)]))
        yield from _same_enumeration_hints(c, lay, occ, lay.BASE, lay.C, 'cells', lambda j: lay.CELL(FOc(j)), lambda k: Jc(lay.BASE(k)))
        occ = occs[1]
        FOm, Jm = occ['FO'], occ['J']
        yield ('hint:first occurrence of a magnitude edge lies in the first cell',
               z3.ForAll([j], z3.Implies(z3.And(0 <= j, j < occ['U']),
                                         z3.And(lay.COL[7](lay.ROW(0, lay.MAGI(FOm(j)))) == lay.COL[7](FOm(j)),
                                                lay.ROW(0, lay.MAGI(FOm(j))) == lay.MAGI(FOm(j)), lay.CELL(FOm(j)) == 0)),
                         patterns=[FOm(j)]))
        yield ('hint:every row of the first cell is a first occurrence',
               z3.ForAll([j], z3.Implies(z3.And(0 <= j, j < lay.M), FOm(Jm(j)) == j), patterns=[Jm(j)]))
        yield from _same_enumeration_hints(c, lay, occ, lambda k: k, lay.M, 'magnitude bins', lambda j: FOm(j), lambda k: Jm(k))

    def ensures(c, r, ascii_fname, _lay, _k, _m):
        lay, k, m = _lay, _k, _m
        ok = isinstance(r, tuple) and len(r) == 3
        yield 'returns (rates, region, magnitudes)', z3.BoolVal(ok)
        if not ok:
            return
        yield from QuadtreeAsciiLoader.lemmas(c, lay)
        rates, reg, mws = r
        ok = isinstance(reg, Opaque) and reg.name == 'qregion' and isinstance(reg.quadkeys, Arr) and reg.quadkeys.ndim == 1
        yield 'the region is built by QuadtreeGrid2D.from_quadkeys from an array of quadkeys', z3.BoolVal(ok)
        if not ok:
            return
        ink = z3.And(0 <= k, k < lay.C)
        yield 'one quadkey per spatial cell of the file', to_z3(reg.quadkeys.shape[0]) == lay.C
        yield 'quadkey k == the quadkey of file cell k, cells in file order', z3.Implies(ink, to_z3(reg.quadkeys.f((k,))) == lay.QK(k))
        yield 'the region gets the magnitudes that are returned', z3.BoolVal(reg.magnitudes is mws)
        ok = isinstance(mws, Arr) and mws.ndim == 1
        yield 'magnitudes: one lower edge per bin', to_z3(mws.shape[0]) == lay.M if ok else z3.BoolVal(False)
        if ok:
            yield 'magnitudes[m] == lower edge of bin m, in file order', z3.Implies(z3.And(0 <= m, m < lay.M), to_real(mws.f((m,))) == lay.MAG0(m))
        ok = isinstance(rates, Arr) and rates.ndim == 2
        yield 'rates has shape (cells, bins)', z3.And(to_z3(rates.shape[0]) == lay.C, to_z3(rates.shape[1]) == lay.M) if ok else z3.BoolVal(False)
        if ok:
            yield 'rates[k, m] == the rate written in the row of (cell k, bin m)', \
                z3.Implies(z3.And(ink, 0 <= m, m < lay.M), to_real(rates.f((k, m))) == lay.COL[9](lay.ROW(k, m)))

    def raises(c, exc, ascii_fname, _lay, _k, _m):
        yield from QuadtreeAsciiLoader.lemmas(c, _lay)
        yield 'no exception (the reshape of the rate column fits: rows == cells x bins)', z3.BoolVal(False)


@contract
class QuadtreeCsvLoader:
    directed = staticmethod(_directed_quadtree('csv'))
    qualname = QCSV
    case = 'quadtree CSV file: header `quadkey, depth_min, depth_max, m_0 .. m_(M-1)`, then one row of M rates per cell; any C, M >= 1'
    properties = ('C11',)

    def params(c):
        C, M = c.int('n_cells'), c.int('n_mag_bins')
        STRID = c.ctx.fresh_fun('field', I_, I_, I_)
        c.ctx.ghost.setdefault('files', {})['forecast.csv'] = ('strtable', C + 1, M + 3, STRID)
        quadtree_stub(c)
        return dict(csv_fname='forecast.csv', _C=C, _M=M, _S=STRID, _k=c.int('cell'), _m=c.int('bin'))

    def requires(c, csv_fname, _C, _M, _S, _k, _m):
        return [_C >= 1, _M >= 1]

    def ensures(c, r, csv_fname, _C, _M, _S, _k, _m):
        k, m = _k, _m
        ok = isinstance(r, tuple) and len(r) == 3
        yield 'returns (rates, region, magnitudes)', z3.BoolVal(ok)
        if not ok:
            return
        rates, reg, mws = r
        ok = isinstance(reg, Opaque) and reg.name == 'qregion' and isinstance(reg.quadkeys, Arr) and reg.quadkeys.ndim == 1
        yield 'the region is built by QuadtreeGrid2D.from_quadkeys from an array of quadkeys', z3.BoolVal(ok)
        if not ok:
            return
        ink = z3.And(0 <= k, k < _C)
        inm = z3.And(0 <= m, m < _M)
        yield 'one quadkey per data row', to_z3(reg.quadkeys.shape[0]) == _C
        yield 'quadkey k == first field of data row k (file order)', z3.Implies(ink, to_z3(reg.quadkeys.f((k,))) == _S(k + 1, 0))
        yield 'the region gets the magnitudes that are returned', z3.BoolVal(reg.magnitudes is mws)
        ok = isinstance(mws, Arr) and mws.ndim == 1
        yield 'magnitudes: one per header field after the first three', to_z3(mws.shape[0]) == _M if ok else z3.BoolVal(False)
        if ok:
            yield 'magnitudes[m] == the number in header field 3 + m', z3.Implies(inm, to_real(mws.f((m,))) == STR_NUM(_S(0, m + 3)))
        ok = isinstance(rates, Arr) and rates.ndim == 2
        yield 'rates has shape (cells, bins)', z3.And(to_z3(rates.shape[0]) == _C, to_z3(rates.shape[1]) == _M) if ok else z3.BoolVal(False)
        if ok:
            yield 'rates[k, m] == the number in field 3 + m of data row k', z3.Implies(z3.And(ink, inm), to_real(rates.f((k, m))) == STR_NUM(_S(k + 1, m + 3)))

    def raises(c, exc, csv_fname, _C, _M, _S, _k, _m):
        return None


@contract
class FromCustom:
    qualname = 'csep.core.forecasts.GriddedForecast.from_custom'
    case = 'loader returning (data, region, magnitudes); extra keyword arguments'
    properties = ('C11',)

    def params(c):
        toks = (Opaque('loader_data'), Opaque('loader_region'), Opaque('loader_magnitudes'))
        args = (Opaque('arg0'), Opaque('arg1'))
        seen = []

        def loader(*a, **kw):
            seen.append((a, kw))
            return toks

        def forecast(*a, **kw):
            return Opaque('forecast', args=a, kwargs=kw)
        return dict(cls=Lam(forecast, 'cls'), func=Lam(loader, 'func'), func_args=args, name='fc', start_time=Opaque('t0'),
                    _toks=toks, _seen=seen, _args=args)

    def ensures(c, r, cls, func, func_args, name, start_time, _toks, _seen, _args):
        yield 'the loader is called once with exactly func_args', z3.BoolVal(len(_seen) == 1 and len(_seen[0][0]) == 2 and not _seen[0][1]
                                                                            and all(a is b for a, b in zip(_seen[0][0], _args)))
        ok = isinstance(r, Opaque) and r.name == 'forecast'
        yield 'returns what the class constructor returns', z3.BoolVal(ok)
        if ok:
            kw = r.kwargs
            yield 'data, region and magnitudes of the loader go to the parameters of the same name (not swapped), keywords are passed on', \
                z3.BoolVal(not r.args and kw.get('data') is _toks[0] and kw.get('region') is _toks[1] and kw.get('magnitudes') is _toks[2]
                           and kw.get('name') == 'fc' and kw.get('start_time') is start_time and set(kw) == {'data', 'region', 'magnitudes', 'name', 'start_time'})

    def raises(c, exc, **kw):
        return None
