"""Property C19 (catalog readers): the INGV HORUS reader under contract.
The text table is an abstract structured array of any number of records whose columns hold the numbers written in the file
(numpy.genfromtxt: assumed string layer).  Proved: one event per record in file order, the encoded coordinates, depth and
magnitude, and the origin time = midnight of the encoded date + hour*3600 + minute*60 + whole seconds - for seconds written as
60 (and minutes as 60, hours as 24) too, without exception.  The fraction of the second is dropped by the reader (open known
finding, pinned by an existing unit test); the contract states the whole-second instant."""
import z3

from pyvc.contracts import contract, LoopInv
from pyvc.core import Arr, Opaque, SymList, simp, to_real, to_z3
from pyvc.models_time import CIVIL_DAY, mk_dt
from pyvc.lib import FLOOR

HORUS = 'csep.utils.readers.ingv_horus'
COLS = (('year', 'int64'), ('month', 'int64'), ('day', 'int64'), ('hour', 'int64'), ('minute', 'int64'), ('second', 'float64'),
        ('lat', 'float64'), ('lon', 'float64'), ('depth', 'float64'), ('Mw', 'float64'))
US = 1000000


def whole_seconds(x):
    return FLOOR(to_real(x))


def instant_us(orig, t):
    """midnight of the encoded date + hour, minute and whole seconds of record t, in microseconds"""
    y, mo, d, h, mi = (to_z3(orig[k].f((t,))) for k in ('year', 'month', 'day', 'hour', 'minute'))
    s = whole_seconds(orig['second'].f((t,)))
    return CIVIL_DAY(y, mo, d) * 86400 * US + (h * 3600 + mi * 60 + s) * US


class HorusLoop(LoopInv):
    def trips(self, I, it):
        arr = it.inner if isinstance(it, Opaque) else it
        return to_z3(arr.shape[0])

    def item(self, I, it, i):
        arr = it.inner if isinstance(it, Opaque) else it
        return (i, I.lib.getitem(arr, i))

    def havoc(self, I, fr, i, it):
        orig = I.ctx.ghost['horus_original']
        data = fr.locals['data']
        for nm in ('second', 'minute', 'hour'):
            col, o = data.fields[nm], orig[nm]
            F = I.ctx.fresh_fun('written_' + nm, z3.IntSort(), z3.RealSort() if nm == 'second' else z3.IntSort())
            col.f = (lambda ix, o=o, F=F: z3.If(to_z3(ix[0]) >= to_z3(i), to_z3(o.f(ix)), F(to_z3(ix[0]))))
        self.T = I.ctx.fresh_fun('out_time_us', z3.IntSort(), z3.IntSort())
        self.E = I.ctx.fresh_fun('out_epoch_ms', z3.IntSort(), z3.IntSort())
        self.V = {k: I.ctx.fresh_fun('out_' + k, z3.IntSort(), z3.RealSort()) for k in ('lat', 'lon', 'depth', 'Mw')}
        T, E, V = self.T, self.E, self.V
        fr.locals['out'] = SymList(to_z3(i), lambda t: (mk_dt(T(to_z3(t)), None), E(to_z3(t)), V['lat'](to_z3(t)), V['lon'](to_z3(t)),
                                                        V['depth'](to_z3(t)), V['Mw'](to_z3(t))), 'out')
        for nm in ('line', 'dt', 'time', 'event_tuple', 'n'):
            fr.locals.pop(nm, None)

    def clause(self, I, rec, t):
        orig = I.ctx.ghost['horus_original']
        tm, ep, la, lo, de, mw = rec
        return z3.And(to_z3(tm.us) == instant_us(orig, t), z3.BoolVal(tm.tz is None),
                      to_real(la) == to_real(orig['lat'].f((t,))), to_real(lo) == to_real(orig['lon'].f((t,))),
                      to_real(de) == to_real(orig['depth'].f((t,))), to_real(mw) == to_real(orig['Mw'].f((t,))))

    def inv(self, I, fr, i, it):
        orig = I.ctx.ghost['horus_original']
        out, data = fr.locals['out'], fr.locals['data']
        i = to_z3(i)
        n_l = to_z3(out.n) if isinstance(out, SymList) else z3.IntVal(len(out))
        yield 'one event per record read', n_l == i
        if self.mode == 'prove':
            t = I.ctx.fresh_int('t!sk')
            for nm in ('second', 'minute', 'hour'):
                yield 'records not yet read are untouched (%s)' % nm, z3.Implies(
                    z3.And(i <= t, t < to_z3(data.shape[0])), to_z3(data.fields[nm].f((t,))) == to_z3(orig[nm].f((t,))))
            if isinstance(out, SymList):
                yield 'event t carries the instant and the numbers of record t', z3.Implies(z3.And(0 <= t, t < i), self.clause(I, out.f(t), t))
        else:
            t = z3.Int('t!inv')
            yield 'spec', z3.ForAll([t], z3.Implies(z3.And(0 <= t, t < i), self.clause(I, fr.locals['out'].f(t), t)),
                                    patterns=[self.T(t)])


def _directed_horus():
    """concrete HORUS files (conventions of rt/oracles_io.catalog_reader): whole seconds, seconds written as 60, minute 60,
    hour 24, one record and several records"""
    loc = dict(lat='42.9043', lon='13.0005', depth='11.1', mag='5.95')
    recs = [dict(loc, t=[2017, 4, 22, 4, 42, '58.00']), dict(loc, t=[2017, 4, 22, 4, 42, '60.00']), dict(loc, t=[2019, 12, 31, 23, 59, '60.00']),
            dict(loc, t=[2020, 2, 28, 23, 60, '0.00']), dict(loc, t=[2020, 9, 22, 24, 0, '1.00']), dict(loc, t=[2021, 1, 1, 0, 0, '0.00'])]
    fam = [('catalog_reader', dict(fmt='ingv_horus', events=recs))]
    for r in recs:
        fam.append(('catalog_reader', dict(fmt='ingv_horus', events=[r])))
    return fam


@contract
class IngvHorus:
    directed = staticmethod(_directed_horus)
    qualname = HORUS
    case = 'table of any number of records; seconds in [0, 61), minutes in 0..60, hours in 0..24'
    properties = ('C19',)
    loops = {0: HorusLoop()}

    def params(c):
        n = c.int('n_records')
        c.ctx.assume(n >= 1)
        cols = {k: c.arr('col_' + k, dt, n=n) for k, dt in COLS}
        c.ctx.ghost['horus_original'] = {k: v.snapshot() for k, v in cols.items()}
        c.ctx.ghost.setdefault('files', {})['horus.txt'] = ('table', n, cols)
        return dict(fname='horus.txt', _n=n, _orig=c.ctx.ghost['horus_original'])

    def requires(c, fname, _n, _orig):
        t = z3.Int('t!rq')
        y, mo, d, h, mi = (to_z3(_orig[k].f((t,))) for k in ('year', 'month', 'day', 'hour', 'minute'))
        s = to_real(_orig['second'].f((t,)))
        leap = z3.And(y % 4 == 0, z3.Or(y % 100 != 0, y % 400 == 0))
        dim = z3.If(z3.Or(mo == 4, mo == 6, mo == 9, mo == 11), 30, z3.If(mo == 2, z3.If(leap, 29, 28), 31))
        return [z3.ForAll([t], z3.Implies(z3.And(0 <= t, t < _n), z3.And(
            y >= 1, y <= 9998, mo >= 1, mo <= 12, d >= 1, d <= dim, h >= 0, h <= 24, mi >= 0, mi <= 60, s >= 0, s < 61)),
            patterns=[_orig['year'].f((t,))])]

    def ensures(c, r, fname, _n, _orig):
        yield 'returns a list of events', z3.BoolVal(isinstance(r, SymList))
        if not isinstance(r, SymList):
            return
        yield 'one event per record', to_z3(r.n) == _n
        t = c.ctx.fresh_int('t!sk')
        rec = r.f(t)
        tm, ep, la, lo, de, mw = rec
        inr = z3.And(0 <= t, t < _n)
        yield 'event t: origin time == midnight of the date + hour, minute and whole seconds of record t (roll-overs included)', \
            z3.Implies(inr, to_z3(tm.us) == instant_us(_orig, t))
        yield 'event t: latitude, longitude, depth and magnitude of record t', z3.Implies(inr, z3.And(
            to_real(la) == to_real(_orig['lat'].f((t,))), to_real(lo) == to_real(_orig['lon'].f((t,))),
            to_real(de) == to_real(_orig['depth'].f((t,))), to_real(mw) == to_real(_orig['Mw'].f((t,)))))

    def raises(c, exc, fname, _n, _orig):
        return None


# ------------------------------------------------------------------ ZMAP
ZMAP = 'csep.utils.readers.zmap_ascii'
# lon lat year month day mag depth hour minute second (+ error columns and network, not read)
Z_LON, Z_LAT, Z_Y, Z_MO, Z_D, Z_MAG, Z_DEP, Z_H, Z_MI, Z_S = range(10)
Z_INT = (Z_Y, Z_MO, Z_D, Z_H, Z_MI, Z_S)


def zmap_epoch_ms(IV, t):
    y, mo, d, h, mi, s = (IV[k](t) for k in Z_INT)
    return (CIVIL_DAY(y, mo, d) * 86400 + h * 3600 + mi * 60 + s) * 1000


class ZmapLoop(LoopInv):
    def trips(self, I, it):
        arr = it.inner if isinstance(it, Opaque) else it
        return to_z3(arr.shape[0])

    def item(self, I, it, i):
        arr = it.inner if isinstance(it, Opaque) else it
        return (i, I.lib.getitem(arr, i))

    def havoc(self, I, fr, i, it):
        self.E = I.ctx.fresh_fun('out_epoch_ms', z3.IntSort(), z3.IntSort())
        self.ID = I.ctx.fresh_fun('out_id', z3.IntSort(), z3.IntSort())
        self.V = {k: I.ctx.fresh_fun('out_' + k, z3.IntSort(), z3.RealSort()) for k in ('lat', 'lon', 'depth', 'mag')}
        E, ID, V = self.E, self.ID, self.V
        fr.locals['out'] = SymList(to_z3(i), lambda t: (ID(to_z3(t)), E(to_z3(t)), V['lat'](to_z3(t)), V['lon'](to_z3(t)),
                                                        V['depth'](to_z3(t)), V['mag'](to_z3(t))), 'out')
        for nm in ('line', 'dt', 'event_id', 'event_tuple'):
            fr.locals.pop(nm, None)

    @staticmethod
    def clause(I, rec, t):
        z = I.ctx.ghost['zmap_file']
        COL, IV = z['COL'], z['IV']
        eid, ep, la, lo, de, mg = rec
        return z3.And(to_z3(eid) == t, to_z3(ep) == zmap_epoch_ms(IV, t), to_real(la) == COL[Z_LAT](t), to_real(lo) == COL[Z_LON](t),
                      to_real(de) == COL[Z_DEP](t), to_real(mg) == COL[Z_MAG](t))

    def inv(self, I, fr, i, it):
        out = fr.locals['out']
        i = to_z3(i)
        n_l = to_z3(out.n) if isinstance(out, SymList) else z3.IntVal(len(out))
        yield 'one event per record read', n_l == i
        if self.mode == 'prove':
            t = I.ctx.fresh_int('t!sk')
            if isinstance(out, SymList):
                yield 'event t carries the id t, the instant and the numbers of record t', z3.Implies(z3.And(0 <= t, t < i), self.clause(I, out.f(t), t))
        else:
            t = z3.Int('t!inv')
            yield 'spec', z3.ForAll([t], z3.Implies(z3.And(0 <= t, t < i), self.clause(I, fr.locals['out'].f(t), t)), patterns=[self.E(t)])


def _directed_zmap():
    loc = dict(lat='42.9043', lon='13.0005', depth='11.1', mag='5.95')
    recs = [dict(loc, t=[2017, 4, 22, 4, 42, 58]), dict(loc, t=[2019, 12, 31, 23, 59, 59]), dict(loc, t=[2020, 2, 29, 0, 0, 0]),
            dict(loc, lat='-42.5', lon='-179.95', t=[1969, 7, 20, 20, 17, 40])]
    return [('catalog_reader', dict(fmt='zmap', events=recs)), ('catalog_reader', dict(fmt='zmap', events=recs[:1]))]


@contract
class ZmapAscii:
    directed = staticmethod(_directed_zmap)
    qualname = ZMAP
    case = 'table of any number of records; whole-number date and time columns of valid instants'
    properties = ('C19',)
    loops = {0: ZmapLoop()}

    def params(c):
        n = c.int('n_records')
        c.ctx.assume(n >= 0)
        COL = [c.ctx.fresh_fun('zmap_col%d' % k, z3.IntSort(), z3.RealSort()) for k in range(14)]
        IV = {k: c.ctx.fresh_fun('zmap_int%d' % k, z3.IntSort(), z3.IntSort()) for k in Z_INT}
        c.ctx.ghost['zmap_file'] = dict(COL=COL, IV=IV, n=n)
        c.ctx.ghost.setdefault('files', {})['catalog.zmap'] = ('table2d', n, COL)
        return dict(fname='catalog.zmap', _n=n)

    def requires(c, fname, _n):
        z = c.ctx.ghost['zmap_file']
        COL, IV = z['COL'], z['IV']
        t = z3.Int('t!rq')
        y, mo, d, h, mi, s = (IV[k](t) for k in Z_INT)
        leap = z3.And(y % 4 == 0, z3.Or(y % 100 != 0, y % 400 == 0))
        dim = z3.If(z3.Or(mo == 4, mo == 6, mo == 9, mo == 11), 30, z3.If(mo == 2, z3.If(leap, 29, 28), 31))
        return [z3.ForAll([t], z3.Implies(z3.And(0 <= t, t < _n), z3.And(
            *[COL[k](t) == z3.ToReal(IV[k](t)) for k in Z_INT],
            y >= 1, y <= 9998, mo >= 1, mo <= 12, d >= 1, d <= dim, h >= 0, h <= 23, mi >= 0, mi <= 59, s >= 0, s <= 59)),
            patterns=[COL[Z_Y](t)])]

    def ensures(c, r, fname, _n):
        if isinstance(r, list) and not r:
            yield 'an empty file gives no events', _n == 0
            return
        yield 'returns a list of events', z3.BoolVal(isinstance(r, SymList))
        if not isinstance(r, SymList):
            return
        yield 'one event per record', to_z3(r.n) == _n
        t = c.ctx.fresh_int('t!sk')
        yield 'event t == (t, instant of record t in ms since the epoch (UTC), latitude, longitude, depth, magnitude of record t)', \
            z3.Implies(z3.And(0 <= t, t < _n), ZmapLoop.clause(c.I, r.f(t), t))

    def raises(c, exc, fname, _n):
        return None


# ------------------------------------------------------------------ CSEP CSV (single catalog)
from pyvc.models_io import FLOAT_OK, FLOAT_VAL, INT_VAL, INT_OK, IS_EMPTY, IS_LON_EXACT, csv_row      # noqa: E402
from pyvc.core import PyRaise, builtin_exc      # noqa: E402

CSEPCSV = 'csep.utils.readers.csep_ascii'
STRP = 'csep.utils.time_utils.strptime_to_utc_epoch'
CSV_TIME_MS = z3.Function('csv_time_ms', z3.IntSort(), z3.IntSort())
CSV_HAS_FRAC = z3.Function('csv_time_has_fraction', z3.IntSort(), z3.BoolSort())


@contract
class StrptimeCsvTime:
    qualname = STRP
    case = 'time field of a csv row read by csep_ascii (assumed: parses with the fractional format iff it has a fraction)'
    properties = ('C19',)
    assumed = True
    priority = 5

    def params(c):
        return None

    def accepts(c, time_string, format=None):
        return isinstance(time_string, Opaque) and time_string.name == 'csvfield' and c.ctx.ghost.get('csep_csv') is not None

    def requires(c, time_string, format=None):
        return []

    def ensures(c, r, time_string, format=None):
        return []

    def result(c, time_string, format=None):
        row = time_string.row
        want_frac = isinstance(format, str) and '%f' in format
        ok = CSV_HAS_FRAC(row) if want_frac else z3.Not(CSV_HAS_FRAC(row))
        if c.ctx.branch(z3.Not(ok)):
            raise PyRaise(builtin_exc('ValueError'), 'time data does not match format')
        return CSV_TIME_MS(row)


def _event_id_token(t):
    """the event id of the record in row t: its id field if not empty, else the row number"""
    return Opaque('csv_event_id', row=to_z3(t))


class CsepCsvLoop(LoopInv):
    """for i, line in enumerate(catalog_reader): after rows [0, i) the list holds one event per row from h on (h = 1 iff row 0
    is the header), event j comes from row j + h; is_first_event <-> no event yet; catalog_id is that of the last row read"""

    def trips(self, I, it):
        src = it.inner if isinstance(it, Opaque) and hasattr(it, 'inner') else it
        return to_z3(src.n)

    def item(self, I, it, i):
        return (i, csv_row(i))

    def havoc(self, I, fr, i, it):
        g = I.ctx.ghost['csep_csv']
        h = g['h']
        i = to_z3(i)
        for nm in ('line', 'lon', 'lat', 'magnitude', 'origin_time', 'depth', 'event_id', 'i'):
            fr.locals.pop(nm, None)
        if I.ctx.branch(i <= h):
            fr.locals['events'] = []
            fr.locals['is_first_event'] = True
            fr.locals['catalog_id'] = None
            self.started = False
            return
        self.started = True
        fr.locals['is_first_event'] = False
        fr.locals['catalog_id'] = z3.If(INT_OK(i - 1, 5), INT_VAL(i - 1, 5), z3.IntVal(-1))
        fr.locals['events'] = SymList(i - h, lambda j: CsepCsvLoop.event_of_row(to_z3(j) + h), 'events')

    @staticmethod
    def event_of_row(t):
        return (_event_id_token(t), CSV_TIME_MS(t), FLOAT_VAL(t, z3.IntVal(1)), FLOAT_VAL(t, z3.IntVal(0)), FLOAT_VAL(t, z3.IntVal(4)), FLOAT_VAL(t, z3.IntVal(2)))

    @staticmethod
    def clause(I, ev, t):
        """the actual tuple `ev` is the event of row t"""
        if not (isinstance(ev, tuple) and len(ev) == 6):
            return z3.BoolVal(False)
        eid = ev[0]
        if isinstance(eid, Opaque) and eid.name == 'csv_event_id':
            id_ok = eid.row == t
        elif isinstance(eid, Opaque) and eid.name == 'csvfield':
            id_ok = z3.And(eid.row == t, eid.col == 6, z3.Not(IS_EMPTY(t, 6)))
        elif z3.is_expr(to_z3(eid)) and to_z3(eid).sort() == z3.IntSort():
            id_ok = z3.And(IS_EMPTY(t, 6), to_z3(eid) == t)
        else:
            return z3.BoolVal(False)
        num = lambda v: z3.is_expr(v) or isinstance(v, (int, float))
        if not all(num(v) for v in ev[1:]):
            return z3.BoolVal(False)
        return z3.And(id_ok, to_z3(ev[1]) == CSV_TIME_MS(t), to_real(ev[2]) == FLOAT_VAL(t, 1), to_real(ev[3]) == FLOAT_VAL(t, 0),
                      to_real(ev[4]) == FLOAT_VAL(t, 4), to_real(ev[5]) == FLOAT_VAL(t, 2))

    def inv(self, I, fr, i, it):
        g = I.ctx.ghost['csep_csv']
        h = g['h']
        i = to_z3(i)
        ev, first, cid = fr.locals['events'], fr.locals['is_first_event'], fr.locals['catalog_id']
        n_ev = to_z3(ev.n) if isinstance(ev, SymList) else z3.IntVal(len(ev))
        if self.mode == 'assume':
            return
        started = i > h
        yield 'no event before the first record', z3.Implies(z3.Not(started), n_ev == 0)
        yield 'one event per record read', z3.Implies(started, n_ev == i - h)
        yield 'is_first_event <-> no record read yet', z3.BoolVal(isinstance(first, bool)) if not isinstance(first, bool) else (z3.Not(started) if first else started)
        if cid is None:
            yield 'catalog_id is None only before the first record', z3.Not(started)
        else:
            yield 'catalog_id is the id of the last record (or -1 if it is not a number)', \
                z3.And(started, to_z3(cid) == z3.If(INT_OK(i - 1, 5), INT_VAL(i - 1, 5), z3.IntVal(-1)))
        j = I.ctx.fresh_int('j!sk')
        if isinstance(ev, SymList) and getattr(ev, 'last_append', None) is not None:
            n0, v, f0 = ev.last_append
            yield 'the event appended last is the event of the row just read', z3.Implies(started, self.clause(I, v, to_z3(n0) + h))
            yield 'earlier event j is the event of row j + h', z3.Implies(z3.And(started, 0 <= j, j < to_z3(n0)), self.clause(I, f0(j), j + h))
        elif isinstance(ev, SymList):
            yield 'event j is the event of row j + h', z3.Implies(z3.And(started, 0 <= j, j < n_ev), self.clause(I, ev.f(j), j + h))
        else:
            for k, e in enumerate(ev):
                yield 'event %d is the event of row %d + h' % (k, k), self.clause(I, e, z3.IntVal(k) + h)


def _csv_params(c, ret_id):
    n = c.int('n_rows')
    c.ctx.assume(n >= 0)
    h = c.int('n_header')
    c.ctx.ghost['csep_csv'] = dict(n=n, h=h)
    c.ctx.ghost['csv_int_may_fail'] = True
    c.ctx.ghost.setdefault('files', {})['catalog.csv'] = ('symrows', n)
    return dict(fname='catalog.csv', return_catalog_id=ret_id, _n=n, _h=h)


def _csv_requires(c, fname, return_catalog_id, _n, _h):
    t = z3.Int('t!rq')
    return [z3.Or(_h == 0, _h == 1), (_h == 1) == z3.And(_n >= 1, IS_LON_EXACT(0)),
            z3.ForAll([t], z3.Implies(z3.And(1 <= t, t < _n), z3.Not(IS_LON_EXACT(t))), patterns=[IS_LON_EXACT(t)]),
            z3.ForAll([t], z3.Implies(z3.And(_h <= t, t < _n), z3.And(*[FLOAT_OK(t, k) for k in (0, 1, 2, 4)])), patterns=[FLOAT_OK(t, 0)])]


def _directed_csepcsv():
    loc = dict(lat='42.9043', lon='13.0005', depth='11.1', mag='5.95')
    recs = [dict(loc, t=[2017, 4, 22, 4, 42, '58.25']), dict(loc, t=[2019, 12, 31, 23, 59, '59.00']), dict(loc, lat='-42.5', lon='-179.95', t=[1969, 7, 20, 20, 17, '40.00'])]
    return [('catalog_reader', dict(fmt='csep-csv', events=recs)), ('catalog_reader', dict(fmt='csep-csv', events=recs[:1]))]


@contract
class CsepAscii:
    directed = staticmethod(_directed_csepcsv)
    qualname = CSEPCSV
    case = 'file of any number of rows, at most one header row (the first); numeric columns parse; events only'
    properties = ('C19',)
    loops = {0: CsepCsvLoop()}

    def params(c):
        return _csv_params(c, False)

    requires = _csv_requires

    def ensures(c, r, fname, return_catalog_id, _n, _h):
        if isinstance(r, list):
            yield 'no events only for a file without records', z3.BoolVal(not r) if r else _n <= _h
            return
        yield 'returns the list of events', z3.BoolVal(isinstance(r, SymList))
        if not isinstance(r, SymList):
            return
        yield 'one event per record', to_z3(r.n) == _n - _h
        j = c.ctx.fresh_int('j!sk')
        yield 'event j == (id field or row number, origin time, latitude, longitude, depth, magnitude) of record j, in file order', \
            z3.Implies(z3.And(0 <= j, j < _n - _h), CsepCsvLoop.clause(c.I, r.f(j), j + _h))

    def raises(c, exc, fname, return_catalog_id, _n, _h):
        return None


@contract
class CsepAsciiWithId(CsepAscii):
    case = 'file of any number of rows, at most one header row; events and catalog id'

    def params(c):
        return _csv_params(c, True)

    def ensures(c, r, fname, return_catalog_id, _n, _h):
        ok = isinstance(r, tuple) and len(r) == 2
        yield 'returns (events, catalog id)', z3.BoolVal(ok)
        if not ok:
            return
        ev, cid = r
        yield from CsepAscii.ensures(c, ev, fname, return_catalog_id, _n, _h)
        if cid is None:
            yield 'the catalog id is None only for a file without records', _n <= _h
        else:
            yield 'the catalog id is that of the last record (-1 if it is not a number)', \
                z3.And(_n > _h, to_z3(cid) == z3.If(INT_OK(_n - 1, 5), INT_VAL(_n - 1, 5), z3.IntVal(-1)))


# ------------------------------------------------------------------ JMA CSV
from pyvc.models_io import CSV_INSTANT_US, field_is      # noqa: E402

JMA = 'csep.utils.readers.jma_csv'
JMA_HDR = field_is('timestamp')


class JmaLoop(LoopInv):
    """for id, line in enumerate(csv_reader): as CsepCsvLoop - one event per row from h on, event j from row j + h, id = row number"""

    def trips(self, I, it):
        src = it.inner if isinstance(it, Opaque) and hasattr(it, 'inner') else it
        return to_z3(src.n)

    def item(self, I, it, i):
        return (i, csv_row(i))

    def havoc(self, I, fr, i, it):
        h = I.ctx.ghost['jma_csv']['h']
        i = to_z3(i)
        for nm in ('line', 'lon', 'lat', 'magnitude', 'origin_time', 'depth', 'id'):
            fr.locals.pop(nm, None)
        if I.ctx.branch(i <= h):
            fr.locals['events'] = []
            fr.locals['is_first_event'] = True
            return
        fr.locals['is_first_event'] = False
        fr.locals['events'] = SymList(i - h, lambda j: JmaLoop.event_of_row(to_z3(j) + h), 'events')

    @staticmethod
    def time_ms(t):
        return CSV_INSTANT_US(t, 0) / 1000

    @staticmethod
    def event_of_row(t):
        return (t, JmaLoop.time_ms(t), FLOAT_VAL(t, z3.IntVal(2)), FLOAT_VAL(t, z3.IntVal(1)), FLOAT_VAL(t, z3.IntVal(3)), FLOAT_VAL(t, z3.IntVal(4)))

    @staticmethod
    def clause(I, ev, t):
        num = lambda v: z3.is_expr(v) or isinstance(v, (int, float))
        if not (isinstance(ev, tuple) and len(ev) == 6 and all(num(v) for v in ev)):
            return z3.BoolVal(False)
        return z3.And(to_z3(ev[0]) == t, to_real(ev[1]) * 1000 == z3.ToReal(CSV_INSTANT_US(t, 0)), to_real(ev[2]) == FLOAT_VAL(t, 2), to_real(ev[3]) == FLOAT_VAL(t, 1),
                      to_real(ev[4]) == FLOAT_VAL(t, 3), to_real(ev[5]) == FLOAT_VAL(t, 4))

    def inv(self, I, fr, i, it):
        h = I.ctx.ghost['jma_csv']['h']
        i = to_z3(i)
        ev, first = fr.locals['events'], fr.locals['is_first_event']
        n_ev = to_z3(ev.n) if isinstance(ev, SymList) else z3.IntVal(len(ev))
        if self.mode == 'assume':
            return
        started = i > h
        yield 'no event before the first record', z3.Implies(z3.Not(started), n_ev == 0)
        yield 'one event per record read', z3.Implies(started, n_ev == i - h)
        yield 'is_first_event <-> no record read yet', z3.BoolVal(False) if not isinstance(first, bool) else (z3.Not(started) if first else started)
        j = I.ctx.fresh_int('j!sk')
        if isinstance(ev, SymList):
            yield 'event j is the event of row j + h', z3.Implies(z3.And(started, 0 <= j, j < n_ev), self.clause(I, ev.f(j), j + h))
        else:
            for k, e in enumerate(ev):
                yield 'event %d is the event of row %d + h' % (k, k), self.clause(I, e, z3.IntVal(k) + h)


def _directed_jma():
    loc = dict(lat='35.9043', lon='139.0005', depth='11.1', mag='5.95')
    # every record states its UTC offset (the writer of the oracle module would otherwise fill in +0900 without telling the oracle)
    recs = [dict(loc, t=[2017, 4, 22, 4, 42, '58.25'], tz='+0900'), dict(loc, t=[2019, 12, 31, 23, 59, '59.00'], tz='+0900'),
            dict(loc, lat='-42.5', lon='-179.95', t=[1969, 7, 20, 20, 17, '40.00'], tz='-0330'), dict(loc, t=[2020, 2, 29, 0, 0, '0.50'], tz='+0000')]
    return [('catalog_reader', dict(fmt='jma-csv', events=recs)), ('catalog_reader', dict(fmt='jma-csv', events=recs[:1])),
            ('catalog_reader', dict(fmt='jma-csv', events=recs, opts={'header': False}))]


@contract
class JmaCsv:
    directed = staticmethod(_directed_jma)
    qualname = JMA
    case = 'file of any number of rows, at most one header row (the first); numeric columns parse; instants on whole milliseconds'
    properties = ('C19',)
    loops = {0: JmaLoop()}

    def params(c):
        n = c.int('n_rows')
        c.ctx.assume(n >= 0)
        h = c.int('n_header')
        c.ctx.ghost['jma_csv'] = dict(n=n, h=h)
        c.ctx.ghost.setdefault('files', {})['catalog.csv'] = ('symrows', n)
        return dict(fname='catalog.csv', _n=n, _h=h)

    def requires(c, fname, _n, _h):
        t = z3.Int('t!rq')
        return [z3.Or(_h == 0, _h == 1), (_h == 1) == z3.And(_n >= 1, JMA_HDR(0, 0)),
                z3.ForAll([t], z3.Implies(z3.And(1 <= t, t < _n), z3.Not(JMA_HDR(t, 0))), patterns=[JMA_HDR(t, 0)]),
                z3.ForAll([t], z3.Implies(z3.And(_h <= t, t < _n), z3.And(CSV_INSTANT_US(t, 0) % 1000 == 0, *[FLOAT_OK(t, k) for k in (1, 2, 3, 4)])),
                          patterns=[FLOAT_OK(t, 1)])]

    def ensures(c, r, fname, _n, _h):
        if isinstance(r, list):
            yield 'no events only for a file without records', z3.BoolVal(not r) if r else _n <= _h
            return
        yield 'returns the list of events', z3.BoolVal(isinstance(r, SymList))
        if not isinstance(r, SymList):
            return
        yield 'one event per record', to_z3(r.n) == _n - _h
        j = c.ctx.fresh_int('j!sk')
        yield 'event j == (row number, UTC instant of the time stamp in ms, latitude, longitude, depth, magnitude) of record j, in file order', \
            z3.Implies(z3.And(0 <= j, j < _n - _h), JmaLoop.clause(c.I, r.f(j), j + _h))

    def raises(c, exc, fname, _n, _h):
        return None


# ------------------------------------------------------------------ csep.load_catalog: type -> (class, reader) dispatch
LOADCAT = 'csep.load_catalog'
READER_OF = {'csep-csv': 'csep_ascii', 'zmap': 'zmap_ascii', 'jma-csv': 'jma_csv', 'ndk': 'ndk', 'ingv_horus': 'ingv_horus',
             'ingv_emrcmt': 'ingv_emrcmt', 'ucerf3': None}
CLASS_OF = {t: ('UCERF3Catalog' if t == 'ucerf3' else 'CSEPCatalog') for t in READER_OF}


def _loadcat_stubs(c, region_less=False):
    from pyvc.core import Lam
    log = []

    def mk_catalog_value(tag):
        def _filter(*a, **k):
            log.append(('filter', tag))
            return mk_catalog_value(tag + '.filter()')

        def _filter_spatial(*a, **k):
            log.append(('filter_spatial', tag))
            if region_less:
                exc = c.I.repo.locate('csep.core.exceptions.CSEPCatalogException', c.I)
                raise PyRaise(exc.exc if hasattr(exc, 'exc') and exc.exc is not None else exc, 'no region')
            return mk_catalog_value(tag + '.filter_spatial()')

        def _csep(*a, **k):
            log.append(('get_csep_format', tag))
            return mk_catalog_value(tag + '.get_csep_format()')
        return Opaque('catalog_value', tag=tag, filter=Lam(_filter, 'filter'), filter_spatial=Lam(_filter_spatial, 'filter_spatial'),
                      get_csep_format=Lam(_csep, 'get_csep_format'))

    def mk_class(cname):
        def load_catalog(filename=None, loader=None, **kw):
            log.append(('load_catalog', cname, filename, loader, kw))
            return mk_catalog_value('loaded')

        def load_json(filename, **kw):
            log.append(('load_json', cname, filename, kw))
            return mk_catalog_value('loaded')
        return Opaque('catalog_class', cname=cname, load_catalog=Lam(load_catalog, 'load_catalog'), load_json=Lam(load_json, 'load_json'))
    readers = Opaque('readers_module', **{nm: Opaque('reader', reader_name=nm) for nm in
                                          ('csep_ascii', 'zmap_ascii', 'jma_csv', 'ndk', 'ingv_horus', 'ingv_emrcmt')})
    cats = Opaque('catalogs_module', CSEPCatalog=mk_class('CSEPCatalog'), UCERF3Catalog=mk_class('UCERF3Catalog'))
    c.ctx.ghost['global_overrides'] = {('csep', 'readers'): readers, ('csep', 'catalogs'): cats}
    return log


def loadcat_case(type_, filename='catalog.dat', fmt='native', apply_filters=False, own_loader=False, region_less=False, extra=None):
    extra = extra or {}

    class LC:
        qualname = LOADCAT
        case = 'type=%s, file %s, format=%s%s%s%s' % (type_, filename, fmt, ', apply_filters' if apply_filters else '',
                                                         ', loader given' if own_loader else '', ', catalog without region' if region_less else '')
        properties = ('C19',)

        def params(c):
            log = _loadcat_stubs(c, region_less)
            p = dict(filename=filename, type=type_, format=fmt, apply_filters=apply_filters, _log=log)
            if own_loader:
                p['loader'] = Opaque('reader', reader_name='callers_own')
            p.update(extra)
            return p

        def ensures(c, r, filename, type, format, apply_filters, _log, loader=None, **kw):
            known = type in READER_OF or loader is not None
            yield 'a catalog is returned only for a known type (or a loader of the caller) and a known format', z3.BoolVal(
                known and format in ('native', 'csep') and isinstance(r, Opaque) and r.name == 'catalog_value')
            loads = [e for e in _log if e[0] in ('load_catalog', 'load_json')]
            yield 'the file is loaded exactly once', z3.BoolVal(len(loads) == 1)
            if len(loads) != 1:
                return
            e = loads[0]
            if filename.endswith('.json'):
                yield 'a .json file goes through load_json of the class of the type', z3.BoolVal(
                    e[0] == 'load_json' and e[1] == CLASS_OF.get(type) and e[2] == filename and e[3] == kw)
            else:
                want = 'callers_own' if loader is not None else READER_OF.get(type)
                got = e[3].reader_name if isinstance(e[3], Opaque) and e[3].name == 'reader' else e[3]
                yield 'the class and the reader of the requested type are used (a loader of the caller wins), keywords passed on', z3.BoolVal(
                    e[0] == 'load_catalog' and e[1] == CLASS_OF.get(type) and e[2] == filename and got == want and e[4] == kw)
            want_tag = 'loaded' + ('.get_csep_format()' if format == 'csep' else '')
            if apply_filters:
                want_tag += '.filter()' + ('' if region_less else '.filter_spatial()')
            yield 'format conversion and filters are applied as requested, in that order (spatial filter only with a region)', z3.BoolVal(
                isinstance(r, Opaque) and getattr(r, 'tag', None) == want_tag)

        def raises(c, exc, filename, type, format, apply_filters, _log, loader=None, **kw):
            bad_type = type not in READER_OF and loader is None
            bad_fmt = format not in ('native', 'csep')
            return [('ValueError exactly for an unknown type (without loader) or an unknown format', z3.BoolVal(exc.name == 'ValueError' and (bad_type or bad_fmt))),
                    ('an unknown type is rejected before anything is loaded', z3.BoolVal(not bad_type or not _log))]
    LC.__name__ = 'LoadCatalog_%s' % abs(hash(LC.case))
    return LC


from pyvc.contracts import REG as _REG_RD      # noqa: E402
for _t in READER_OF:
    _REG_RD.add(loadcat_case(_t))
for _kw in (dict(type_='csep-csv', filename='catalog.json'), dict(type_='ucerf3', filename='catalog.json', extra={'name': 'x'}),
            dict(type_='zmap', fmt='csep'), dict(type_='jma-csv', apply_filters=True), dict(type_='csep-csv', apply_filters=True, region_less=True),
            dict(type_='ndk', fmt='csep', apply_filters=True), dict(type_='csep-csv', own_loader=True),
            dict(type_='my-format'), dict(type_='zmap', fmt='zmap'), dict(type_='ingv_horus', extra={'name': 'horus', 'region': None})):
    _REG_RD.add(loadcat_case(**_kw))
