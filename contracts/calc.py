"""Contracts for csep/utils/calc.py (properties C02, C01, C03, C10)."""
import z3

from pyvc.contracts import contract, LoopInv
from pyvc import spec
from pyvc.core import Arr, rv, to_real, to_z3, builtin_exc, sym_floor
from pyvc.lib import EPS64, EPS32

# tolerance the *property* grants below an edge ("relative distance of order 1e-12 for float64,
# growing linearly with the bin index"); the code's own term is eps*(|v| + (k+2)|a0|)
TOL = {'float64': 1e-11, 'float32': 1e-5, 'int64': 1e-11}
EPS = {'float64': EPS64, 'float32': EPS32}


def zabs(x):
    return z3.If(x >= 0, x, -x)


def grid(c, name='bins', dtype='float64'):
    """equally spaced edges e_k = a0 + k*h, k < n   (ghost description of `bins`)"""
    n = z3.Int(name + '.n')
    if dtype == 'int64':
        a0, h = z3.Int(name + '.a0'), z3.Int(name + '.h')
        f = lambda ix: a0 + to_z3(ix[0]) * h
    else:
        a0, h = z3.Real(name + '.a0'), z3.Real(name + '.h')
        f = lambda ix: a0 + z3.ToReal(to_z3(ix[0])) * h if z3.is_expr(ix[0]) else a0 + rv(float(ix[0])) * h
    a = Arr((n,), f, dtype, label=name)
    a.grid = (a0, h, n)
    return a


def grid_witness(m, p):
    from pyvc.driver import model_value
    out = {}
    for k, v in p.items():
        if isinstance(v, Arr) and hasattr(v, 'grid'):
            a0, h, n = v.grid
            nn = min(m.eval(n, model_completion=True).as_long(), 400)
            out[k] = {'__grid__': [model_value(m, a0), model_value(m, h), nn], 'dtype': v.dtype}
        else:
            out[k] = model_value(m, v)
    return out


def _n(a):
    return to_z3(a.shape[0]) if a.ndim else z3.IntVal(1)


def _el(a, i):
    return a.f((i,)) if a.ndim else a.f(())


def _directed_bin1d():
    """concrete decimal grids (conventions of rt/oracles.bin1d_vec): every edge of the California longitude / latitude lattices and
    of the CSEP magnitude grid as a query point, plus points just inside and outside - where float round-off of (p - a0) / h
    decides the bin and the tolerance terms of the code matter"""
    from decimal import Decimal
    fam = []
    for a0, h, n in (('-125.4', '0.1', 124), ('31.5', '0.1', 40), ('5.95', '0.1', 31), ('0', '0.05', 41), ('2.5', '0.1', 56)):
        edges = [float(Decimal(a0) + k * Decimal(h)) for k in range(n)]
        hh = float(Decimal(h))
        pts = edges + [e + hh / 2 for e in edges[::7]] + [edges[0] - hh, edges[0] - 1e-9, edges[-1] + hh, edges[-1] + 10 * hh]
        for rc in (False, True):
            fam.append(('bin1d_vec', dict(p=pts, bins=edges, right_continuous=rc)))
    return fam


class _Bin1d:
    """bin1d_vec(p, bins, tol, right_continuous) against binof (DESIGN 5/C02), model R.

    clauses(i, k, j) are the element-wise postconditions for element i (and j, for
    monotonicity) and an arbitrary integer k naming an edge e_k = a0 + k*h."""
    qualname = 'csep.utils.calc.bin1d_vec'
    oracle = 'bin1d_vec'
    directed = staticmethod(_directed_bin1d)
    pdtype = 'float64'
    bdtype = 'float64'
    scalar = False
    with_tol = False
    witness = staticmethod(grid_witness)

    @classmethod
    def params(cls, c):
        if cls.scalar:
            x = c.real('p') if cls.pdtype != 'int64' else c.int('p')
            p = Arr((), lambda ix: x, cls.pdtype, label='p')
        else:
            p = c.arr('p', cls.pdtype)
        bins = grid(c, 'bins', cls.bdtype)
        tol = c.real('tol') if cls.with_tol else None
        return dict(p=p, bins=bins, tol=tol, right_continuous=c.bool('right_continuous'))

    @classmethod
    def accepts(cls, c, p, bins, tol, right_continuous):
        from pyvc.core import is_sym
        from pyvc.core import valid_grid
        if not isinstance(p, Arr) or not isinstance(bins, Arr) or valid_grid(bins) is None:
            return False
        return (p.dtype == cls.pdtype and bins.dtype == cls.bdtype and (p.ndim == 0) == cls.scalar
                and (tol is not None) == cls.with_tol)

    @classmethod
    def _eps(cls):
        eps_a = rv(EPS[cls.bdtype]) if cls.bdtype in EPS else rv(0.0)
        eps_p = rv(EPS[cls.pdtype]) if cls.pdtype in EPS else rv(0.0)
        return eps_a, eps_p

    @classmethod
    def requires(cls, c, p, bins, tol, right_continuous):
        a0, h, n = bins.grid
        a0r, hr = to_real(a0), to_real(h)
        eps_a, eps_p = cls._eps()
        he = z3.If(n == 1, z3.RealVal(1), hr)
        # a meaningful grid: the spacing is not lost in the round-off of the anchor
        # (the code divides by h - |a0|*eps); n = 1 takes the single-edge rule h := 1
        out = [n >= 1, z3.Or(z3.And(n >= 2, hr < 0), he > 4 * zabs(a0r) * (eps_a + eps_p))]
        if cls.with_tol:
            # an explicit tolerance is meant to be small against the bin width
            out.append(z3.And(tol >= 0, 4 * tol < he))
        return out

    @classmethod
    def raises(cls, c, exc, p, bins, tol, right_continuous):
        a0, h, n = bins.grid
        if exc.name != 'ValueError':
            return None
        return [('ValueError-only-for-decreasing-edges', z3.And(n >= 2, to_real(h) < 0))]

    @classmethod
    def ptol(cls, v, tol):
        """the tolerance term the property grants for the value itself"""
        eps_a, eps_p = cls._eps()
        if cls.with_tol:
            return z3.If(tol != 0, tol, zabs(v) * eps_p)
        return None

    @classmethod
    def clauses(cls, c, r, p, bins, tol, right_continuous, i, k, j, hints=True):
        a0, h, n = bins.grid
        a0r = to_real(a0)
        hr = z3.If(n == 1, z3.RealVal(1), to_real(h))
        opn = z3.Or(right_continuous, n == 1)
        eps_a, eps_p = cls._eps()
        tolr = rv(TOL[cls.pdtype])
        kr = z3.ToReal(k)
        inr = z3.And(0 <= i, i < _n(p))
        v = to_real(_el(p, i))
        ri = to_z3(_el(r, i))
        ek = a0r + kr * hr
        ek1 = a0r + (kr + 1) * hr
        if cls.with_tol:
            # an explicit tolerance replaces the dtype based one for the value (when truthy)
            pt = z3.If(tol != 0, tol, zabs(v) * eps_p)
            tau = pt + tolr * (kr + 2) * zabs(a0r)
            below = pt + tolr * zabs(a0r)
        else:
            pt = zabs(v) * eps_p
            tau = tolr * (zabs(v) + (kr + 2) * zabs(a0r))
            below = tolr * (zabs(v) + zabs(a0r))

        def quotient(val, ptv):
            N = val - a0r + ptv + zabs(a0r) * eps_a
            D = hr - zabs(a0r) * eps_a
            Q = N / D
            fl = sym_floor(c.ctx, Q)
            # property of real division (valid fact, spelled out for the non-linear core)
            c.ctx.fact(z3.Implies(D != 0, Q * D == N))
            return N, D, Q, fl
        if hints:
            # ---- proof steps: the quotient the code forms, and its floor ------------------
            N, D, Q, fl = quotient(v, pt)
            yield 'hint:D>0', D > 0
            yield 'hint:code-computes-clamp(floor(N/D))', z3.Implies(
                inr, ri == z3.If(opn, z3.If(fl < 0, -1, z3.If(fl >= n - 1, n - 1, fl)),
                                 z3.If(z3.Or(fl < 0, fl >= n), -1, fl)))
            yield 'hint:lower:N>=kD', z3.Implies(z3.And(k >= 0, v >= ek), N >= kr * D)
            yield 'hint:lower:Q>=k', z3.Implies(z3.And(k >= 0, v >= ek), Q >= kr)
            yield 'hint:lower:fl>=k', z3.Implies(z3.And(k >= 0, v >= ek), fl >= k)
            yield 'hint:upper:N<(k+1)D', z3.Implies(z3.And(k >= 0, v < ek1 - tau), N < (kr + 1) * D)
            yield 'hint:upper:Q<k+1', z3.Implies(z3.And(k >= 0, v < ek1 - tau), Q < kr + 1)
            yield 'hint:upper:fl<=k', z3.Implies(z3.And(k >= 0, v < ek1 - tau), fl <= k)
            yield 'hint:N>=0-iff', z3.Implies(v >= a0r, N >= 0)
            yield 'hint:fl>=0', z3.Implies(v >= a0r, fl >= 0)
            yield 'hint:below:N<0', z3.Implies(v < a0r - below, N < 0)
            yield 'hint:below:fl<0', z3.Implies(v < a0r - below, fl < 0)
            yield 'hint:closed-top:fl>=n', z3.Implies(z3.And(k == n, v >= ek), fl >= n)
            yield 'hint:open-top:fl>=n-1', z3.Implies(z3.And(k == n - 1, v >= ek), fl >= n - 1)
            nr = z3.ToReal(n)
            taun = tolr * (zabs(v) + (nr + 1) * zabs(a0r)) if not cls.with_tol else pt + tolr * (nr + 1) * zabs(a0r)
            yield 'hint:closed-below-top:N<nD', z3.Implies(v < a0r + nr * hr - taun, N < nr * D)
            yield 'hint:closed-below-top:fl<n', z3.Implies(v < a0r + nr * hr - taun, fl < n)

        yield 'range', z3.Implies(inr, z3.And(ri >= -1, ri <= n - 1))
        # a value at or above an edge never goes below it
        yield 'lower-inclusive(open)', z3.Implies(z3.And(inr, opn, k >= 0, v >= ek),
                                                  ri >= z3.If(k <= n - 1, k, n - 1))
        yield 'lower-inclusive(closed)', z3.Implies(z3.And(inr, z3.Not(opn), k >= 0, k <= n - 1, v >= ek),
                                                    z3.Or(ri >= k, ri == -1))
        yield 'closed-top-is-out-of-range', z3.Implies(z3.And(inr, z3.Not(opn), k == n, v >= ek), ri == -1)
        yield 'closed-inside-is-binned', z3.Implies(z3.And(inr, z3.Not(opn), k >= 0, k <= n - 1, v >= ek, v < ek1 - tau),
                                                    ri == k)
        # upper-exclusive up to the granted tolerance
        yield 'upper-exclusive', z3.Implies(z3.And(inr, k >= 0, k <= n - 1, v < ek1 - tau), ri <= k)
        yield 'at-or-above-first-edge-is-not-below-range', z3.Implies(z3.And(inr, v >= a0r, z3.Or(opn, v < a0r + z3.ToReal(n) * hr - (tolr * (zabs(v) + (z3.ToReal(n) + 1) * zabs(a0r)) if not cls.with_tol else pt + tolr * (z3.ToReal(n) + 1) * zabs(a0r)))), ri >= 0)
        yield 'below-first-edge', z3.Implies(z3.And(inr, v < a0r - below), ri == -1)
        yield 'first-edge', z3.Implies(z3.And(inr, v == a0r), ri == 0)
        yield 'open-top', z3.Implies(z3.And(inr, opn, k == n - 1, v >= ek), ri == n - 1)
        if j is not None:
            # monotone
            rj = to_z3(_el(r, j))
            vj = to_real(_el(p, j))
            inj = z3.And(0 <= j, j < _n(p))
            if hints:
                ptj = z3.If(tol != 0, tol, zabs(vj) * eps_p) if cls.with_tol else zabs(vj) * eps_p
                N2, D2, Q2, fl2 = quotient(vj, ptj)
                yield 'hint:mono:code-computes(j)', z3.Implies(
                    inj, rj == z3.If(opn, z3.If(fl2 < 0, -1, z3.If(fl2 >= n - 1, n - 1, fl2)),
                                     z3.If(z3.Or(fl2 < 0, fl2 >= n), -1, fl2)))
                yield 'hint:mono:N', z3.Implies(v <= vj, N <= N2)
                yield 'hint:mono:Q', z3.Implies(v <= vj, Q <= Q2)
                yield 'hint:mono:fl', z3.Implies(v <= vj, fl <= fl2)
            yield 'monotone(open)', z3.Implies(z3.And(inr, inj, opn, v <= vj), ri <= rj)

    @classmethod
    def ensures(cls, c, r, p, bins, tol, right_continuous):
        a0, h, n = bins.grid
        yield 'not-decreasing', z3.Or(n == 1, to_real(h) >= 0)
        yield 'result-is-int-array', z3.BoolVal(isinstance(r, Arr) and r.dtype == 'int64' and r.ndim == p.ndim)
        if p.ndim:
            yield 'same-length', to_z3(r.shape[0]) == _n(p)
        if c.mode == 'prove':
            i, k, j = c.ctx.fresh_int('i!sk'), c.ctx.fresh_int('k!sk'), c.ctx.fresh_int('j!sk')
            yield from cls.clauses(c, r, p, bins, tol, right_continuous, i, k, j)
        else:
            # modular use: quantified over the element; the edge index k is instantiated by
            # the caller through r.ghost['bin1d'](i, k, j)
            i = c.ctx.fresh_int('i!q')
            for nm, g in cls.clauses(c, r, p, bins, tol, right_continuous, i, z3.IntVal(0), None, hints=False):
                if nm in ('range', 'below-first-edge', 'first-edge', 'lower-inclusive(open)', 'lower-inclusive(closed)'):
                    yield nm, z3.ForAll([i], g, patterns=[to_z3(_el(r, i))]) if p.ndim else g

    @classmethod
    def result(cls, c, p, bins, tol, right_continuous):
        if p.ndim:
            r = c.L.fresh_arr('bin1d', (p.shape[0],), 'int64')
        else:
            x = c.ctx.fresh_int('bin1d')
            r = Arr((), lambda ix: x, 'int64')
        # the clauses speak about the array as returned (callers may overwrite entries afterwards)
        frozen = r.snapshot()
        r.ghost['bin1d'] = lambda i, k, j=None: [g for nm, g in cls.clauses(c, frozen, p, bins, tol, right_continuous, i, k, j, hints=False)]
        r.ghost['bin1d_result'] = frozen
        return r


@contract
class Bin1d_f64(_Bin1d):
    case = 'p:float64[],bins:float64-grid,tol=None'


@contract
class Bin1d_f32(_Bin1d):
    case = 'p:float32[],bins:float64-grid,tol=None'
    pdtype = 'float32'


@contract
class Bin1d_int(_Bin1d):
    case = 'p:int64[],bins:float64-grid,tol=None'
    pdtype = 'int64'


@contract
class Bin1d_scalar(_Bin1d):
    case = 'p:float64 scalar,bins:float64-grid,tol=None'
    scalar = True


@contract
class Bin1d_tol(_Bin1d):
    case = 'p:float64[],bins:float64-grid,tol given'
    with_tol = True


@contract
class Bin1d_intgrid(_Bin1d):
    case = 'p:float64[],bins:int64-grid,tol=None'
    bdtype = 'int64'


# ---------------------------------------------------------------------------
# callers of bin1d_vec (call-site obligations, proved against the contract above)
# ---------------------------------------------------------------------------
@contract
class GetMagnitudeIndex:
    qualname = 'csep.core.forecasts.MarkedGriddedDataSet.get_magnitude_index'
    case = 'mags:float64[],tol=None'
    oracle = 'get_magnitude_index'
    properties = ('C02', 'C08')

    def params(c):
        bins = grid(c, 'magnitudes', 'float64')
        region = c.obj(None, magnitudes=bins)
        return dict(self=c.obj('csep.core.forecasts.MarkedGriddedDataSet', region=region),
                    mags=c.arr('mags', 'float64'), tol=None)

    def _bins(self):
        return self.fields['region'].fields['magnitudes']

    def requires(c, self, mags, tol):
        bins = GetMagnitudeIndex._bins(self)
        return Bin1d_f64.requires(c, mags, bins, None, True) + [to_real(bins.grid[1]) >= 0]

    def raises(c, exc, self, mags, tol):
        if exc.name != 'ValueError':
            return None
        bins = GetMagnitudeIndex._bins(self)
        a0 = to_real(bins.grid[0])
        i = z3.Int('i!ex')
        return [('raises-only-if-some-magnitude-is-below-the-first-edge',
                 z3.Exists([i], z3.And(0 <= i, i < mags.n, to_real(mags.f((i,))) < a0)))]

    def ensures(c, r, self, mags, tol):
        bins = GetMagnitudeIndex._bins(self)
        a0 = to_real(bins.grid[0])
        i, k, j = c.ctx.fresh_int('i!sk'), c.ctx.fresh_int('k!sk'), c.ctx.fresh_int('j!sk')
        inst = getattr(r, 'ghost', {}).get('bin1d')
        if inst is not None:
            for g in inst(i, k, j):
                c.ctx.assume(g)
        inr = z3.And(0 <= i, i < mags.n)
        v = to_real(mags.f((i,)))
        yield 'no-magnitude-clearly-below-first-edge', z3.Implies(
            inr, z3.Not(v < a0 - rv(TOL['float64']) * (zabs(v) + zabs(a0))))
        yield 'all-indices-valid', z3.Implies(inr, to_z3(r.f((i,))) >= 0)
        for nm, g in Bin1d_f64.clauses(c, r, mags, bins, None, z3.BoolVal(True), i, k, j, hints=False):
            yield nm, g


def grid_witness_self(m, p):
    out = grid_witness(m, {k: v for k, v in p.items() if k != 'self'})
    out['magnitudes'] = grid_witness(m, {'b': GetMagnitudeIndex._bins(p['self'])})['b']
    return out


GetMagnitudeIndex.witness = staticmethod(grid_witness_self)


# ---------------------------------------------------------------------------
# _compute_likelihood (property C10: pseudo-likelihood / spatial statistic of catalog-based tests)
# ---------------------------------------------------------------------------
from pyvc.lib import LOG, SUM, NAN


def _rs(fn, n):
    i = z3.Int('i!lam')
    return SUM(z3.Lambda([i], to_real(fn(i))), to_z3(n))


def _directed_undersampled():
    """the -inf value of the score (an observed event in a cell no synthetic catalog sampled) is what the 'undersampled' path of
    the pseudo-likelihood test keys on: concrete forecasts through the public test (conventions of rt/oracles_catfc.catfc_test)"""
    from contracts.cateval import directed_catfc
    return [x for x in directed_catfc('pseudolikelihood_test')() if len(x[1]['observed']) in (1, 2)][-6:]


@contract
class ComputeLikelihood:
    # concrete inputs (conventions of rt/oracles_contracts.compute_likelihood): the number of events of the catalog differs from
    # n_obs (synthetic catalogs are normalised by their own size), empty catalog, n_obs = 0, zero expected count
    directed = staticmethod(lambda: _directed_undersampled() + [('compute_likelihood', dict(gridded_data=g, apprx_rate_density=r, expected_cond_count=e, n_obs=n))
                                     for g, r, e, n in (([0, 2, 1], [0.5, 0.25, 0.25], 3.0, 5.0), ([1, 0, 0, 3], [0.1, 0.0, 2.0, 0.4], 2.5, 1.0),
                                                        ([0, 0, 0], [0.5, 0.25, 0.25], 3.0, 2.0), ([2, 1], [0.3, 0.7], 1.0, 0.0),
                                                        ([2, 1], [0.3, 0.7], 0.0, 3.0))])
    qualname = 'csep.utils.calc._compute_likelihood'
    case = '1-d gridded counts and rates'
    oracle = 'compute_likelihood'
    properties = ('C10',)

    def params(c):
        n = c.int('n')
        c.ctx.assume(n >= 1)
        return dict(gridded_data=c.arr('g', 'float64', n=n), apprx_rate_density=c.arr('rate', 'float64', n=n),
                    expected_cond_count=c.real('E'), n_obs=c.real('n_obs'))

    def requires(c, gridded_data, apprx_rate_density, expected_cond_count, n_obs):
        g = gridded_data
        return [c.forall(0, to_z3(g.shape[0]), lambda i: to_real(g.f((i,))) >= 0)]

    def accepts(c, gridded_data, apprx_rate_density, expected_cond_count, n_obs):
        return isinstance(gridded_data, Arr) and isinstance(apprx_rate_density, Arr) and gridded_data.ndim == 1 and apprx_rate_density.ndim == 1

    def result(c, gridded_data, apprx_rate_density, expected_cond_count, n_obs):
        """modular use: the normalised score is NaN exactly in the undefined cases (its own contract), a real otherwise"""
        g = gridded_data
        total = _rs(lambda i: g.f((i,)), to_z3(g.shape[0]))
        undefined = z3.Or(total == 0, to_real(n_obs) == 0, to_real(expected_cond_count) == 0)
        if c.ctx.ghost.get('plh_minus_inf'):
            # ASSUMED (float semantics, outside model R): an event in a cell of rate 0 makes the score log(0) = -inf.  Opt-in by
            # the caller's contract (pseudolikelihood_test, whose 'undersampled' path tests for exactly this value).
            from pyvc.core import Opaque
            i = z3.Int('i!zr')
            rate = apprx_rate_density
            if c.ctx.branch(z3.Exists([i], z3.And(0 <= i, i < to_z3(g.shape[0]), to_real(g.f((i,))) != 0, to_real(rate.f((i,))) == 0))):
                # the normalised score is returned as NaN before any logarithm when n_obs or the expected count is 0
                if c.ctx.branch(z3.Or(to_real(n_obs) == 0, to_real(expected_cond_count) == 0)):
                    return (Opaque('inf', sign=-1), NAN)
                return (Opaque('inf', sign=-1), Opaque('inf', sign=-1))
        plh = c.ctx.fresh_real('pseudo_likelihood')
        if c.ctx.branch(undefined):
            return (plh, NAN)
        return (plh, c.ctx.fresh_real('normalised_likelihood'))

    def ensures(c, r, gridded_data, apprx_rate_density, expected_cond_count, n_obs):
        g, rate, E = gridded_data, apprx_rate_density, expected_cond_count
        n = to_z3(g.shape[0])
        n_obs, E = to_real(n_obs), to_real(E)
        yield 'returns a pair', z3.BoolVal(isinstance(r, tuple) and len(r) == 2)
        plh, lnorm = r
        from pyvc.core import Opaque
        if isinstance(plh, Opaque) and plh.name == 'inf':
            return          # the assumed -inf case of the modular result: nothing further is known (or needed)
        total = _rs(lambda i: g.f((i,)), n)
        tot_rate = _rs(lambda i: rate.f((i,)), n)
        empty = total == 0
        yield 'no events: (-E, nan)', z3.Implies(empty, z3.And(to_real(plh) == -E, z3.BoolVal(lnorm is NAN)))
        ll = _rs(lambda i: z3.If(g.f((i,)) != 0, g.f((i,)) * LOG(rate.f((i,))), z3.RealVal(0)), n)
        yield 'pseudo-likelihood == sum_{g>0} g*log(rate) - E', z3.Implies(z3.Not(empty), to_real(plh) == ll - E)
        if lnorm is NAN:
            yield 'nan score only when undefined (no events, n_obs = 0 or E = 0)', z3.Or(empty, n_obs == 0, E == 0)
        else:
            yield 'normalised score defined only with events, n_obs != 0 and E != 0', z3.And(z3.Not(empty), n_obs != 0, E != 0)
            lln = _rs(lambda i: z3.If(g.f((i,)) != 0, g.f((i,)) * LOG(rate.f((i,)) / tot_rate), z3.RealVal(0)), n)
            yield 'normalised score == sum_{g>0} g*log(rate/sum rate) / sum g', to_real(lnorm) * total == lln


@contract
class Discretize:
    """discretize(data, bin_edges): every value replaced by the lower edge of its bin; a value below the first edge is an error"""
    qualname = 'csep.utils.calc.discretize'
    case = 'data:float64[], equally spaced edges, right_continuous=False'
    properties = ('C02',)

    def params(c):
        return dict(data=c.arr('data', 'float64'), bin_edges=grid(c, 'bin_edges', 'float64'), right_continuous=False)

    def requires(c, data, bin_edges, right_continuous):
        return Bin1d_f64.requires(c, data, bin_edges, None, False) + [to_z3(bin_edges.grid[2]) >= 2, to_real(bin_edges.grid[1]) > 0]

    def raises(c, exc, data, bin_edges, right_continuous):
        if exc.name != 'CSEPException':
            return None
        a0 = to_real(bin_edges.grid[0])
        i = z3.Int('i!ex')
        call = None
        for cl in c.calls('csep.utils.calc.bin1d_vec'):
            call = cl
        idx = call[2] if call else None
        out = [('the binning is done by bin1d_vec on the data and the edges given', z3.BoolVal(call is not None))]
        if idx is not None:
            out.append(('raises only if some value is binned to -1 (below the first edge)',
                        z3.Exists([i], z3.And(0 <= i, i < data.n, to_z3(idx.f((i,))) == -1))))
        return out

    def ensures(c, r, data, bin_edges, right_continuous):
        a0, h, M = bin_edges.grid
        calls = c.calls('csep.utils.calc.bin1d_vec')
        yield 'one call of bin1d_vec', z3.BoolVal(len(calls) == 1)
        if not calls:
            return
        loc, idx = calls[0][1], calls[0][2]
        yield 'binned with the given closure mode', z3.BoolVal(loc.get('right_continuous') is right_continuous)
        i = c.ctx.fresh_int('i!sk')
        inr = z3.And(0 <= i, i < data.n)
        yield 'one value per input value', to_z3(r.shape[0]) == data.n
        yield 'no value was binned to -1', z3.Implies(inr, to_z3(idx.f((i,))) >= 0)
        yield 'value i is replaced by the lower edge of its bin: a0 + idx_i * h', z3.Implies(
            inr, to_real(r.f((i,))) == to_real(a0) + z3.ToReal(to_z3(idx.f((i,)))) * to_real(h))
