"""Contracts for csep/models.py and csep.load_evaluation_result (property C18): factory totality and
field preservation, one obligation group per EvaluationResult subclass found in the AST."""
import ast
import os

import z3

from pyvc.contracts import contract, REG
from pyvc.core import REPO, Obj, to_z3


def result_classes():
    """names of EvaluationResult and its subclasses, read from the working tree"""
    src = open(os.path.join(REPO, 'csep', 'models.py')).read()
    tree = ast.parse(src)
    names = []
    for node in tree.body:
        if isinstance(node, ast.ClassDef):
            bases = [ast.unparse(b) for b in node.bases]
            if node.name == 'EvaluationResult' or 'EvaluationResult' in bases:
                names.append(node.name)
    return names


FIELDS = ['name', 'status', 'observed_statistic', 'quantile', 'test_distribution', 'sim_name', 'obs_name', 'min_mw']


def roundtrip_case(clsname):
    class RT:
        qualname = 'lemma:csep.load_evaluation_result[%s]' % clsname
        case = 'to_dict -> json -> load_evaluation_result'
        oracle = 'evaluation_result_roundtrip'
        properties = ('C18',)

        def lemma(c):
            cls = c.I.repo.locate_class('csep.models.' + clsname, c.I)
            x0, x1, q1, q2, st, mw = (c.real('x0'), c.real('x1'), c.real('q1'), c.real('q2'), c.real('stat'), c.real('min_mw'))
            c.witness_terms = {'clsname': clsname}
            obj = c.I.instantiate(cls, [], dict(test_distribution=[x0, x1], name='N-Test', observed_statistic=st,
                                                quantile=(q1, q2), status='normal', sim_name='fc', obs_name='cat', min_mw=mw))
            d = c.inline('csep.models.%s.to_dict' % clsname, obj)
            yield 'to_dict stores the class name under type', z3.BoolVal(isinstance(d, dict) and d.get('type') == clsname)
            c.ctx.ghost.setdefault('files', {})['result.json'] = ('json', _jsonify(d))
            r = c.inline('csep.load_evaluation_result', 'result.json')
            yield 'loaded as the same result class', z3.BoolVal(isinstance(r, Obj) and r.cls is cls)
            if isinstance(r, Obj):
                exp = dict(name='N-Test', status='normal', observed_statistic=st, quantile=[q1, q2],
                           test_distribution=[x0, x1], sim_name='fc', obs_name='cat', min_mw=mw)
                for f in FIELDS:
                    yield 'field %s preserved' % f, _same(r.fields.get(f), exp[f])
    RT.__name__ = 'RoundTrip_' + clsname
    return RT


def _jsonify(v):
    """json contract: tuples -> lists, dict/list/str/number leaves unchanged"""
    if isinstance(v, tuple):
        return [_jsonify(x) for x in v]
    if isinstance(v, list):
        return [_jsonify(x) for x in v]
    if isinstance(v, dict):
        return {k: _jsonify(x) for k, x in v.items()}
    return v


def _same(a, b):
    if isinstance(b, (list, tuple)):
        if not isinstance(a, (list, tuple)) or len(a) != len(b):
            return z3.BoolVal(False)
        return z3.And(*[_same(x, y) for x, y in zip(a, b)]) if b else z3.BoolVal(True)
    if isinstance(b, str) or b is None:
        return z3.BoolVal(a == b)
    if a is None:
        return z3.BoolVal(False)
    return to_z3(a) == to_z3(b)


for _n in result_classes():
    REG.add(roundtrip_case(_n))
