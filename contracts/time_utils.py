"""Contracts for csep/utils/time_utils.py (property C15; used by C04, C12, C14, C19).

Datetime view: integer microseconds since 1970-01-01T00:00:00 + tz tag (pyvc.models_time).
Float steps are under model E (one IEEE rounding per operation, half-ulp bounds per binade)."""
import z3

from pyvc.contracts import contract
from pyvc.core import Opaque, rv, to_z3, to_real
from pyvc.models_time import mk_dt

# |m| <= 2^33 * 1000 ms covers 1900-01-01 .. 2200-01-01 (-2.21e12 .. 7.26e12 ms)
MS_BOUND = (2 ** 33 - 1) * 1000


def _is_dt(r):
    return isinstance(r, Opaque) and r.name == 'datetime'


@contract
class EpochToDatetime:
    # concrete instants (conventions of rt/oracles_time.epoch_to_datetime): before the epoch, around it, 1900 and 2200
    directed = staticmethod(lambda: [('epoch_to_datetime', dict(epoch_time_milli=v)) for v in
                                     (-1500, -1, 0, 1, 1001, -2208988800123, 7258118399999, 1262304000123)])
    qualname = 'csep.utils.time_utils.epoch_time_to_utc_datetime'
    case = 'epoch_time_milli:int'
    oracle = 'epoch_to_datetime'
    float_model = 'E'

    def params(c):
        return dict(epoch_time_milli=c.int('m'))

    def requires(c, epoch_time_milli):
        m = epoch_time_milli
        return [m >= -MS_BOUND, m <= MS_BOUND]

    def ensures(c, r, epoch_time_milli):
        yield 'returns-datetime', z3.BoolVal(_is_dt(r))
        if _is_dt(r):
            yield 'utc-aware', z3.BoolVal(r.tz == 'UTC')
            yield 'microseconds==1000*m (exact to the millisecond)', to_z3(r.us) == 1000 * epoch_time_milli

    def result(c, epoch_time_milli):
        return mk_dt(c.ctx.fresh_int('us'), 'UTC')


@contract
class EpochToDatetimeNone:
    qualname = 'csep.utils.time_utils.epoch_time_to_utc_datetime'
    case = 'epoch_time_milli=None'

    def params(c):
        return dict(epoch_time_milli=None)

    def accepts(c, epoch_time_milli):
        return epoch_time_milli is None

    def ensures(c, r, epoch_time_milli):
        yield 'None-passes-through', z3.BoolVal(r is None)

    def result(c, epoch_time_milli):
        return None


EpochToDatetime.accepts = lambda c, epoch_time_milli: epoch_time_milli is not None


class _DtToEpoch:
    float_model = "E"
    # concrete instants in microseconds (conventions of rt/oracles_time.datetime_to_epoch): 1.001 s (the float product falls below the
    # whole millisecond), sub-millisecond instants before the epoch (floor, not truncation), 1900 and 2200
    directed = staticmethod(lambda: [('datetime_to_epoch', dict(us=v, tz=tz)) for tz in (None, 'UTC') for v in
                                     (1001000, -1500, -1, 0, 999, 1000, -2208988800123456, 7258118399999999, 1262304000123000)])
    qualname = 'csep.utils.time_utils.datetime_to_utc_epoch'
    oracle = 'datetime_to_epoch'
    tz = None

    @classmethod
    def params(cls, c):
        return dict(dt=mk_dt(c.int('us'), cls.tz))

    @classmethod
    def accepts(cls, c, dt):
        return _is_dt(dt) and dt.tz == cls.tz

    @classmethod
    def ensures(cls, c, r, dt):
        us = to_z3(dt.us)
        yield 'returns-int', z3.BoolVal(z3.is_expr(to_z3(r)) and to_z3(r).sort() == z3.IntSort())
        r = to_z3(r)
        yield 'whole-millisecond-datetimes-are-exact', z3.Implies(us % 1000 == 0, r * 1000 == us)
        yield 'finer-datetimes-land-within-one-millisecond', z3.And(r * 1000 - us < 1000, us - r * 1000 < 1000)

    @classmethod
    def result(cls, c, dt):
        return c.ctx.fresh_int('epoch_ms')

    @staticmethod
    def witness(m, p):
        from pyvc.driver import model_value
        return {'us': model_value(m, p['dt'].us), 'tz': p['dt'].tz}


@contract
class DtToEpochNaive(_DtToEpoch):
    case = 'naive datetime (taken as UTC)'
    tz = None


@contract
class DtToEpochUTC(_DtToEpoch):
    case = 'UTC-aware datetime'
    tz = 'UTC'


@contract
class DtToEpochOtherTz:
    qualname = 'csep.utils.time_utils.datetime_to_utc_epoch'
    case = 'non-UTC tzinfo'

    def params(c):
        return dict(dt=mk_dt(c.int('us'), 'EST'))

    def accepts(c, dt):
        return _is_dt(dt) and dt.tz not in (None, 'UTC')

    def ensures(c, r, dt):
        yield 'must-raise-ValueError', z3.BoolVal(False)

    def raises(c, exc, dt):
        return [('ValueError', z3.BoolVal(exc.name == 'ValueError'))]


@contract
class DtToEpochNone:
    qualname = 'csep.utils.time_utils.datetime_to_utc_epoch'
    case = 'dt=None'

    def params(c):
        return dict(dt=None)

    def accepts(c, dt):
        return dt is None

    def ensures(c, r, dt):
        yield 'None-passes-through', z3.BoolVal(r is None)

    def result(c, dt):
        return None


@contract
class RoundTrips:
    """lemmas over the two conversion contracts (property C15: round trips, monotonicity)"""
    qualname = 'lemma:csep.utils.time_utils.round_trips'
    case = 'epoch<->datetime'

    def lemma(c):
        E2D = 'csep.utils.time_utils.epoch_time_to_utc_datetime'
        D2E = 'csep.utils.time_utils.datetime_to_utc_epoch'
        m, m2 = c.int('m'), c.int('m2')
        for x in (m, m2):
            c.ctx.assume(z3.And(x >= -MS_BOUND, x <= MS_BOUND))
        d, d2 = c.call(E2D, m), c.call(E2D, m2)
        yield 'epoch->datetime->epoch is the identity', to_z3(c.call(D2E, d)) == m
        yield 'epoch->datetime is strictly monotone', z3.Implies(m < m2, to_z3(d.us) < to_z3(d2.us))
        us, us2 = c.int('us'), c.int('us2')
        for x in (us, us2):
            c.ctx.assume(z3.And(x >= -MS_BOUND * 1000, x <= MS_BOUND * 1000))
        for tz in (None, 'UTC'):
            e, e2 = c.call(D2E, mk_dt(us, tz)), c.call(D2E, mk_dt(us2, tz))
            back = c.call(E2D, e)
            nm = 'naive' if tz is None else 'UTC'
            yield 'datetime->epoch->datetime is the identity on whole milliseconds (%s)' % nm, \
                z3.Implies(us % 1000 == 0, to_z3(back.us) == us)
            yield 'finer datetimes come back within one millisecond (%s)' % nm, \
                z3.And(to_z3(back.us) - us < 1000, us - to_z3(back.us) < 1000)


@contract
class DtToEpochMonotone:
    """relational: two executions of the real body"""
    qualname = 'lemma:csep.utils.time_utils.datetime_to_utc_epoch.monotone'
    case = 'two datetimes'

    def lemma(c):
        D2E = 'csep.utils.time_utils.datetime_to_utc_epoch'
        us, us2 = c.int('us'), c.int('us2')
        for tz in (None, 'UTC'):
            e, e2 = c.inline(D2E, mk_dt(us, tz)), c.inline(D2E, mk_dt(us2, tz))
            nm = 'naive' if tz is None else 'UTC'
            yield 'datetime->epoch is monotone (%s)' % nm, z3.Implies(us <= us2, to_z3(e) <= to_z3(e2))


@contract
class UtcNow:
    qualname = 'csep.utils.time_utils.utc_now_datetime'
    case = 'clock'

    def params(c):
        return {}

    def ensures(c, r):
        yield 'utc-aware datetime', z3.BoolVal(_is_dt(r) and r.tz == 'UTC')

    def result(c):
        return mk_dt(c.ctx.fresh_int('now_us'), 'UTC')


INSTANT_MS = z3.Function('instant_ms', z3.IntSort(), z3.IntSort())   # token id -> the instant the time string denotes (ms)


@contract
class StrptimeToEpoch:
    """assumed-by-composition: parse_string_format + strptime + datetime_to_utc_epoch; used modularly by filter().
    Its own proof needs the string layer (bounded only)."""
    qualname = 'csep.utils.time_utils.strptime_to_utc_epoch'
    case = 'time string token'
    modular_only = True

    def params(c):
        return dict(time_string='<D> <T>')

    def accepts(c, time_string, format=None):
        return isinstance(time_string, str)

    def ensures(c, r, time_string, format=None):
        return []

    def result(c, time_string, format=None):
        toks = c.ctx.ghost.setdefault('time_tokens', {})
        if time_string not in toks:
            toks[time_string] = INSTANT_MS(len(toks))
        return toks[time_string]


# ---------------------------------------------------------------------------------------------------
# decimal_year (C15): year + elapsed fraction of the (leap-aware) year
# ---------------------------------------------------------------------------------------------------
def _leap_year(y):
    return z3.And(y % 4 == 0, z3.Or(y % 100 != 0, y % 400 == 0))


def decimal_year_case(month):
    class DY:
        qualname = 'csep.utils.time_utils.decimal_year'
        case = 'civil date-time record, month=%d' % month
        properties = ('C15',)
        oracle = 'decimal_year_civil'

        def witness(m, p):
            from pyvc.driver import model_value
            d = p['test_date']
            return {k: model_value(m, d.fields[k]) for k in ('year', 'month', 'day', 'hour', 'minute', 'second', 'microsecond')}

        def params(c):
            y, d, h, mi, s, us = (c.int(k) for k in ('year', 'day', 'hour', 'minute', 'second', 'microsecond'))
            return dict(test_date=c.obj(None, year=y, month=month, day=d, hour=h, minute=mi, second=s, microsecond=us))

        def requires(c, test_date):
            f = test_date.fields
            y, d = f['year'], f['day']
            dim = [31, z3.If(_leap_year(y), 29, 28), 31, 30, 31, 30, 31, 31, 30, 31, 30, 31][month - 1]
            return [y >= 1, y <= 9999, d >= 1, d <= dim, f['hour'] >= 0, f['hour'] <= 23, f['minute'] >= 0, f['minute'] <= 59,
                    f['second'] >= 0, f['second'] <= 59, f['microsecond'] >= 0, f['microsecond'] <= 999999]

        def ensures(c, r, test_date):
            f = test_date.fields
            y = f['year']
            leap = _leap_year(y)
            before = sum([31, 28, 31, 30, 31, 30, 31, 31, 30, 31, 30, 31][:month - 1])
            doy = z3.IntVal(before) + (z3.If(leap, 1, 0) if month > 2 else 0) + f['day'] - 1
            ndays = z3.If(leap, 366, 365)
            # the code multiplies the microseconds by the double 1e-6 (not exactly 10^-6): the same constant is used here
            secs = z3.ToReal(f['hour'] * 3600 + f['minute'] * 60 + f['second']) + z3.ToReal(f['microsecond']) * rv(1e-6)
            elapsed = z3.ToReal(doy) * 86400 + secs
            yield 'decimal year == year + elapsed seconds of the year / seconds of the (leap-aware, Gregorian) year', \
                (to_real(r) - z3.ToReal(y)) * z3.ToReal(ndays) * 86400 == elapsed
            yield 'inside the year', z3.And(to_real(r) >= z3.ToReal(y), to_real(r) < z3.ToReal(y) + 1)
    DY.__name__ = 'DecimalYear_%02d' % month
    return DY


from pyvc.contracts import REG as _REG_T
for _m in range(1, 13):
    _REG_T.add(decimal_year_case(_m))
