"""Contracts for the gridded evaluation functions (poisson / binomial / brier evaluations, stats):
properties C05, C07, C08, C16 (formula level) - model R, log/exp/loggamma/cdfs uninterpreted."""
import z3

from pyvc.contracts import contract, pointwise_sum_hint
from pyvc import spec
from pyvc.core import Arr, rv, to_real, to_z3, simp
from pyvc.lib import LOG, EXP, LOGGAMMA, SQRT, SUM, ArrTerm
from pyvc.models_sci import PCDF, NBCDF, TPPF


def rsum(fn, n):
    """sum_{i<n} fn(i) as the SUM of a lambda array"""
    i = z3.Int('i!lam')
    return SUM(z3.Lambda([i], to_real(fn(i))), to_z3(n))


# ------------------------------------------------------------------ C05
@contract
class PoissonJointLL:
    qualname = 'csep.utils.stats.poisson_joint_log_likelihood_ndarray'
    case = '1-d arrays'
    oracle = 'poisson_joint_ll'
    properties = ('C05',)

    def params(c):
        n = c.int('n')
        c.ctx.assume(n >= 0)
        return dict(target_event_log_rates=c.arr('t', 'float64', n=n), target_observations=c.arr('w', 'float64', n=n),
                    n_fore=c.real('n_fore'))

    def ensures(c, r, target_event_log_rates, target_observations, n_fore):
        t, w = target_event_log_rates, target_observations
        n = t.n
        yield 'value == sum(t) - sum(loggamma(w+1)) - n_fore', to_real(r) == \
            rsum(lambda i: t.f((i,)), n) - rsum(lambda i: LOGGAMMA(to_real(w.f((i,))) + 1), n) - n_fore

    def result(c, target_event_log_rates, target_observations, n_fore):
        return c.ctx.fresh_real('jll')

    def witness(m, p):
        from pyvc.driver import model_value
        return {k: model_value(m, v) for k, v in p.items()}


# ------------------------------------------------------------------ C07
@contract
class NumberTestNdarray:
    qualname = 'csep.core.poisson_evaluations._number_test_ndarray'
    case = 'integer count, epsilon=1e-6'
    oracle = 'number_test_ndarray'
    properties = ('C07',)

    def params(c):
        return dict(fore_cnt=c.real('fore_cnt'), obs_cnt=c.int('obs_cnt'), epsilon=c.real('epsilon'))

    float_model = 'E'      # n -/+ epsilon is a float operation: floor(fl(n - eps)) = n - 1 must hold for every n <= 1e5

    def requires(c, fore_cnt, obs_cnt, epsilon=None):
        # the tolerance must survive the rounding of n -/+ epsilon for every count up to 1e5 (half an ulp of 1e5 is
        # 7.3e-12) and stay below the spacing of the integers
        eps = to_real(epsilon) if epsilon is not None else rv(1e-6)
        return [fore_cnt > 0, obs_cnt >= 0, obs_cnt <= 100000, eps >= rv(1e-10), eps <= rv(0.5)]

    def ensures(c, r, fore_cnt, obs_cnt, epsilon=None):
        d1, d2 = r
        fl = c.I.S.fl_round
        yield 'delta1 == P(N >= n) = 1 - F(n-1)  (one rounding of the subtraction)', to_real(d1) == fl(1 - PCDF(obs_cnt - 1, fore_cnt))
        yield 'delta2 == P(N <= n) = F(n)', to_real(d2) == PCDF(obs_cnt, fore_cnt)
        yield 'both in [0,1]', z3.And(to_real(d1) >= 0, to_real(d1) <= 1, to_real(d2) >= 0, to_real(d2) <= 1)

    def result(c, fore_cnt, obs_cnt, epsilon=None):
        return (c.ctx.fresh_real('delta1'), c.ctx.fresh_real('delta2'))


@contract
class NBDNumberTestNdarray:
    qualname = 'csep.core.binomial_evaluations._nbd_number_test_ndarray'
    case = 'integer count, var > mean > 0'
    oracle = 'nbd_number_test_ndarray'
    properties = ('C07',)

    def params(c):
        return dict(fore_cnt=c.real('mean'), obs_cnt=c.int('obs_cnt'), variance=c.real('var'))

    def requires(c, fore_cnt, obs_cnt, variance, epsilon=None):
        return [fore_cnt > 0, variance > fore_cnt, obs_cnt >= 0]

    def ensures(c, r, fore_cnt, obs_cnt, variance, epsilon=None):
        d1, d2 = r
        mean, var = fore_cnt, variance
        tau, ups = c.ctx.fresh_real('tau'), c.ctx.fresh_real('upsilon')
        # the NB(tau, upsilon) law with the prescribed mean and variance:  mean = tau(1-u)/u, var = tau(1-u)/u^2
        c.ctx.assume(z3.And(ups * var == mean, tau * (var - mean) == mean * mean))
        yield 'hint:upsilon in (0,1)', z3.And(ups > 0, ups < 1)
        yield 'NB mean is the forecast mean', tau * (1 - ups) == mean * ups
        yield 'NB variance is the given variance', tau * (1 - ups) == var * ups * ups
        yield 'delta1 == 1 - F_NB(n-1)', to_real(d1) == 1 - NBCDF(obs_cnt - 1, tau, ups)
        yield 'delta2 == F_NB(n)', to_real(d2) == NBCDF(obs_cnt, tau, ups)
        yield 'both in [0,1]', z3.And(to_real(d1) >= 0, to_real(d1) <= 1, to_real(d2) >= 0, to_real(d2) <= 1)

    def result(c, fore_cnt, obs_cnt, variance, epsilon=None):
        return (c.ctx.fresh_real('delta1'), c.ctx.fresh_real('delta2'))


def _fc_cat(c):
    """abstract gridded forecast / catalog records as the number tests read them"""
    mags = c.arr('magnitudes', 'float64')
    c.ctx.assume(mags.n >= 1)
    fc = c.obj(None, event_count=c.real('fore_cnt'), name='fc', magnitudes=mags)
    cat = c.obj(None, event_count=c.int('obs_cnt'), name='cat')
    return fc, cat


@contract
class PoissonNumberTest:
    qualname = 'csep.core.poisson_evaluations.number_test'
    case = 'abstract forecast/catalog records'
    properties = ('C07',)

    def params(c):
        fc, cat = _fc_cat(c)
        return dict(gridded_forecast=fc, observed_catalog=cat)

    float_model = 'E'

    def requires(c, gridded_forecast, observed_catalog):
        n = observed_catalog.fields['event_count']
        return [gridded_forecast.fields['event_count'] > 0, n >= 0, n <= 100000]

    def ensures(c, r, gridded_forecast, observed_catalog):
        mu, n = gridded_forecast.fields['event_count'], observed_catalog.fields['event_count']
        q = r.fields.get('quantile')
        yield 'quantile is a pair', z3.BoolVal(isinstance(q, tuple) and len(q) == 2)
        yield 'delta1 == 1 - F(n_obs - 1 | forecast total)', to_real(q[0]) == c.I.S.fl_round(1 - PCDF(n - 1, mu))
        yield 'delta2 == F(n_obs | forecast total)', to_real(q[1]) == PCDF(n, mu)
        yield 'observed statistic is the catalog size', to_z3(r.fields.get('observed_statistic')) == n
        yield 'status normal', z3.BoolVal(r.fields.get('status') == 'normal')
        yield 'names', z3.BoolVal(r.fields.get('sim_name') == 'fc' and r.fields.get('obs_name') == 'cat')


@contract
class NBDNumberTest:
    qualname = 'csep.core.binomial_evaluations.negative_binomial_number_test'
    case = 'abstract forecast/catalog records'
    properties = ('C07',)

    def params(c):
        fc, cat = _fc_cat(c)
        return dict(gridded_forecast=fc, observed_catalog=cat, variance=c.real('var'))

    def requires(c, gridded_forecast, observed_catalog, variance):
        mu = gridded_forecast.fields['event_count']
        return [mu > 0, variance > mu, observed_catalog.fields['event_count'] >= 0]

    def ensures(c, r, gridded_forecast, observed_catalog, variance):
        mean, n = gridded_forecast.fields['event_count'], observed_catalog.fields['event_count']
        q = r.fields.get('quantile')
        tau, ups = c.ctx.fresh_real('tau'), c.ctx.fresh_real('upsilon')
        c.ctx.assume(z3.And(ups * variance == mean, tau * (variance - mean) == mean * mean))
        yield 'quantile is a pair', z3.BoolVal(isinstance(q, tuple) and len(q) == 2)
        yield 'delta1 == 1 - F_NB(n_obs - 1)', to_real(q[0]) == 1 - NBCDF(n - 1, tau, ups)
        yield 'delta2 == F_NB(n_obs)', to_real(q[1]) == NBCDF(n, tau, ups)
        yield 'observed statistic is the catalog size', to_z3(r.fields.get('observed_statistic')) == n
        yield 'status normal', z3.BoolVal(r.fields.get('status') == 'normal')


# ------------------------------------------------------------------ C16
def _flat(a, k):
    """element k of the C-order flattening of a 1-d / 2-d Arr"""
    if a.ndim == 1:
        return a.f((k,))
    n1 = to_z3(a.shape[1])
    return a.f((k / n1, k % n1))


def _size(a):
    return to_z3(a.shape[0]) if a.ndim == 1 else to_z3(a.shape[0]) * to_z3(a.shape[1])


class _BinaryLL:
    qualname = 'csep.core.binomial_evaluations.binary_joint_log_likelihood_ndarray'
    oracle = 'binary_joint_ll'
    properties = ('C16',)
    rank = 1

    @classmethod
    def params(cls, c):
        if cls.rank == 1:
            n = c.int('n')
            c.ctx.assume(n >= 0)
            return dict(forecast=c.arr('forecast', 'float64', n=n), catalog=c.arr('catalog', 'float64', n=n))
        n0, n1 = c.int('n0'), c.int('n1')
        c.ctx.assume(z3.And(n0 >= 0, n1 >= 1))
        return dict(forecast=c.arr2('forecast', 'float64', (n0, n1)), catalog=c.arr2('catalog', 'float64', (n0, n1)))

    @classmethod
    def requires(cls, c, forecast, catalog):
        # positive rates (the definition gives -inf for an event in a zero-rate bin: known finding D14,
        # the masked entries are outside this contract); counts are non-negative
        N = _size(forecast)
        return [c.forall(0, N, lambda k: z3.And(to_real(_flat(forecast, k)) > 0, to_real(_flat(catalog, k)) >= 0))]

    @classmethod
    def ensures(cls, c, r, forecast, catalog):
        N = _size(forecast)

        def term(k):
            lam = to_real(_flat(forecast, k))
            act = to_real(_flat(catalog, k)) != 0
            return z3.If(act, LOG(1 - EXP(-lam)), -lam)
        h = pointwise_sum_hint(c, 'summands agree bin by bin', to_real(r), term, N)
        if h:
            yield h
        yield 'value == sum_active ln(1-exp(-rate)) + sum_inactive (-rate)', to_real(r) == rsum(term, N)

    @classmethod
    def result(cls, c, forecast, catalog):
        return c.ctx.fresh_real('bll')


def _rates_counts_witness(a, b):
    def w(m, p):
        from pyvc.driver import model_value
        return {'rates': model_value(m, p[a]), 'counts': model_value(m, p[b])}
    return staticmethod(w)


_BinaryLL.oracle = 'binary_jll_ndarray'
_BinaryLL.witness = _rates_counts_witness('forecast', 'catalog')


@contract
class BinaryLL1(_BinaryLL):
    case = '1-d (spatial) arrays, positive rates'
    rank = 1


@contract
class BinaryLL2(_BinaryLL):
    case = '2-d (space-magnitude) arrays, positive rates'
    rank = 2


class _Brier:
    qualname = 'csep.core.brier_evaluations._brier_score_ndarray'
    oracle = 'brier_score'
    properties = ('C16',)
    rank = 2

    @classmethod
    def params(cls, c):
        if cls.rank == 1:
            n = c.int('n')
            c.ctx.assume(n >= 1)
            return dict(forecast=c.arr('forecast', 'float64', n=n), observations=c.arr('observations', 'float64', n=n))
        n0, n1 = c.int('n0'), c.int('n1')
        c.ctx.assume(z3.And(n0 >= 1, n1 >= 1))
        return dict(forecast=c.arr2('forecast', 'float64', (n0, n1)), observations=c.arr2('observations', 'float64', (n0, n1)))

    @classmethod
    def ensures(cls, c, r, forecast, observations):
        N = _size(forecast)

        def term(k):
            lam = to_real(_flat(forecast, k))
            act = z3.If(to_real(_flat(observations, k)) > 0, z3.RealVal(1), z3.RealVal(0))
            d = 1 - EXP(-lam) - act
            return d * d
        yield 'value == -2/N * sum (1 - exp(-rate) - [active])^2', to_real(r) * z3.ToReal(N) == -2 * rsum(term, N)

    @classmethod
    def result(cls, c, forecast, observations):
        return c.ctx.fresh_real('brier')


_Brier.oracle = 'brier_score_ndarray'
_Brier.witness = _rates_counts_witness('forecast', 'observations')


@contract
class Brier2(_Brier):
    case = '2-d (space-magnitude) arrays'
    rank = 2


@contract
class Brier1(_Brier):
    case = '1-d arrays'
    rank = 1


# ------------------------------------------------------------------ C08
@contract
class TTestNdarray:
    qualname = 'csep.core.poisson_evaluations._t_test_ndarray'
    case = 'positive target rates, N >= 2'
    oracle = 't_test_ndarray'

    def witness(m, p):
        from pyvc.driver import model_value
        return {'rates1': model_value(m, p['target_event_rates1']), 'rates2': model_value(m, p['target_event_rates2']),
                'n_f1': model_value(m, p['n_f1']), 'n_f2': model_value(m, p['n_f2']), 'alpha': model_value(m, p['alpha'])}
    properties = ('C08',)

    def params(c):
        n = c.int('n')
        c.ctx.assume(n >= 2)
        return dict(target_event_rates1=c.arr('rates1', 'float64', n=n), target_event_rates2=c.arr('rates2', 'float64', n=n),
                    n_obs=c.int('n_obs'), n_f1=c.real('n_f1'), n_f2=c.real('n_f2'), alpha=c.real('alpha'))

    def requires(c, target_event_rates1, target_event_rates2, n_obs, n_f1, n_f2, alpha):
        return [n_obs == target_event_rates1.n, alpha > 0, alpha < 1]

    def ensures(c, r, target_event_rates1, target_event_rates2, n_obs, n_f1, n_f2, alpha):
        a, b = target_event_rates1, target_event_rates2
        n = a.n
        N = z3.ToReal(n_obs)
        d = lambda i: LOG(to_real(a.f((i,)))) - LOG(to_real(b.f((i,))))
        S1 = rsum(d, n)
        S2 = rsum(lambda i: d(i) * d(i), n)
        ig = to_real(r['information_gain'])
        yield 'is dict with the five entries', z3.BoolVal(isinstance(r, dict) and set(r) == {
            't_statistic', 't_critical', 'information_gain', 'ig_lower', 'ig_upper'})
        yield 'information gain (eq. 17)', ig * N == S1 - (n_f1 - n_f2)
        var = c.ctx.fresh_real('var')
        c.ctx.assume(var == S2 / (N - 1) - (S1 * S1) / (N * N - N))
        std = SQRT(var)
        sN = SQRT(N)
        yield 't statistic = IG / (s / sqrt N) with the variance of eq. 18', to_real(r['t_statistic']) == ig / (std / sN)
        tc = TPPF(1 - alpha / 2, N - 1)
        yield 't critical', to_real(r['t_critical']) == tc
        yield 'interval', z3.And(to_real(r['ig_lower']) == ig - tc * std / sN, to_real(r['ig_upper']) == ig + tc * std / sN)


# ------------------------------------------------------------------ C06
from pyvc.contracts import pointwise_count_hint
from pyvc.lib import CNT


def find_app(term, name):
    """first application of function `name` inside term"""
    st = [term]
    seen = set()
    while st:
        u = st.pop()
        if u.get_id() in seen:
            continue
        seen.add(u.get_id())
        if z3.is_app(u):
            if u.decl().name() == name:
                return u
            st.extend(u.children())
    return None


@contract
class PoissonSimulateCatalog:
    """_simulate_catalog(num_events, W, sim, r): exact inverse CDF on the cumulative weights W"""
    qualname = 'csep.core.poisson_evaluations._simulate_catalog'
    case = 'injected random numbers'
    oracle = 'poisson_simulate_catalog'
    properties = ('C06', 'C05')

    def params(c):
        K = c.int('K')
        n = c.int('num_events')
        c.ctx.assume(z3.And(K >= 1, n >= 0))
        return dict(num_events=n, sampling_weights=c.arr('W', 'float64', n=K), sim_fore=c.arr('sim', 'float64', n=K),
                    random_numbers=c.arr('u', 'float64', n=n))

    def requires(c, num_events, sampling_weights, sim_fore, random_numbers):
        W, u = sampling_weights, random_numbers
        K = W.n
        i, j = z3.Ints('i!rq j!rq')
        return [z3.ForAll([i, j], z3.Implies(z3.And(0 <= i, i <= j, j < K), W.f((i,)) <= W.f((j,))),
                          patterns=[z3.MultiPattern(W.f((i,)), W.f((j,)))]),
                # every number in [0,1) must be placeable: the last cumulative weight reaches 1
                W.f((K - 1,)) >= 1,
                z3.ForAll([i], z3.Implies(z3.And(0 <= i, i < u.n), z3.And(u.f((i,)) >= 0, u.f((i,)) < 1)),
                          patterns=[u.f((i,))])]

    def ensures(c, r, num_events, sampling_weights, sim_fore, random_numbers):
        W, u = sampling_weights, random_numbers
        K, n = W.n, num_events
        yield 'returns the array passed in (reset, not reallocated)', z3.BoolVal(r is sim_fore)
        k = c.ctx.fresh_int('k!sk')
        ink = z3.And(0 <= k, k < K)
        val = to_real(r.f((k,)))

        def in_bin(t):
            ut = u.f((t,))
            return z3.And(z3.Or(k == 0, W.f((k - 1,)) <= ut), ut < W.f((k,)))
        cnt = find_app(val, 'CNT')
        if cnt is not None:
            h = pointwise_count_hint(c, 'event t lands in bin k iff F(k-1) <= u_t < F(k)', cnt, in_bin, n)
            if h:
                yield h[0], z3.Implies(ink, h[1]), h[2]
        i = z3.Int('i!cnt')
        yield 'sim[k] == #{t : F(k-1) <= u_t < F(k)}', z3.Implies(
            ink, val == z3.ToReal(CNT(z3.Lambda([i], in_bin(i)), n)))
        yield 'zero-width (zero-rate) bins receive no event', z3.Implies(
            z3.And(ink, k >= 1, W.f((k - 1,)) == W.f((k,))), val == 0)
        yield 'total number of simulated events', to_real(spec_sum(c, r)) == z3.ToReal(n)

    def result(c, num_events, sampling_weights, sim_fore, random_numbers):
        # modular use: the array passed in is overwritten with fresh contents
        K = sampling_weights.n
        fresh = c.L.fresh_arr('simcat', (K,), 'float64')
        sim_fore.f = fresh.f
        sim_fore.term = fresh.term
        sim_fore.term_f = sim_fore.f
        return sim_fore


def spec_sum(c, a):
    from pyvc.lib import sum_term
    return sum_term(c.L, a)
