"""Contracts for the gridded evaluation functions (poisson / binomial / brier evaluations, stats):
properties C05, C07, C08, C16 (formula level) - model R, log/exp/loggamma/cdfs uninterpreted."""
import z3

from pyvc.contracts import contract, pointwise_sum_hint
from pyvc import spec
from pyvc.core import Arr, rv, to_real, to_z3, simp
from pyvc.lib import LOG, EXP, LOGGAMMA, SQRT, SUM, ArrTerm
from pyvc.models_sci import PCDF, NBCDF, TPPF


def rsum(fn, n):
    """sum_{i<n} fn(i) as the SUM of a lambda array"""
    i = z3.Int('i!lam')
    return SUM(z3.Lambda([i], to_real(fn(i))), to_z3(n))


# ------------------------------------------------------------------ C05
@contract
class PoissonJointLL:
    # concrete inputs for the replay of an open obligation (conventions of rt/oracles_contracts.poisson_joint_ll): an event in a
    # bin of rate 0 (log-rate -inf) must make the joint log-likelihood -inf; ordinary finite inputs
    directed = staticmethod(lambda: [('poisson_joint_ll', dict(target_event_log_rates=[-1.0, float('-inf'), 0.5], target_observations=[1, 1, 0], n_fore=2.0)),
                                     ('poisson_joint_ll', dict(target_event_log_rates=[-1.0, -2.5, 0.5], target_observations=[1, 3, 0], n_fore=2.0)),
                                     ('poisson_joint_ll', dict(target_event_log_rates=[], target_observations=[], n_fore=0.5))])
    qualname = 'csep.utils.stats.poisson_joint_log_likelihood_ndarray'
    case = '1-d arrays'
    oracle = 'poisson_joint_ll'
    properties = ('C05',)

    def params(c):
        n = c.int('n')
        c.ctx.assume(n >= 0)
        return dict(target_event_log_rates=c.arr('t', 'float64', n=n), target_observations=c.arr('w', 'float64', n=n),
                    n_fore=c.real('n_fore'))

    def ensures(c, r, target_event_log_rates, target_observations, n_fore):
        t, w = target_event_log_rates, target_observations
        n = t.n
        yield 'value == sum(t) - sum(loggamma(w+1)) - n_fore', to_real(r) == \
            rsum(lambda i: t.f((i,)), n) - rsum(lambda i: LOGGAMMA(to_real(w.f((i,))) + 1), n) - n_fore

    def result(c, target_event_log_rates, target_observations, n_fore):
        return c.ctx.fresh_real('jll')

    def witness(m, p):
        from pyvc.driver import model_value
        return {k: model_value(m, v) for k, v in p.items()}


# ------------------------------------------------------------------ C07
@contract
class NumberTestNdarray:
    qualname = 'csep.core.poisson_evaluations._number_test_ndarray'
    case = 'integer count, epsilon=1e-6'
    oracle = 'number_test_ndarray'
    properties = ('C07',)

    def params(c):
        return dict(fore_cnt=c.real('fore_cnt'), obs_cnt=c.int('obs_cnt'), epsilon=c.real('epsilon'))

    float_model = 'E'      # n -/+ epsilon is a float operation: floor(fl(n - eps)) = n - 1 must hold for every n <= 1e5

    def requires(c, fore_cnt, obs_cnt, epsilon=None):
        # the tolerance must survive the rounding of n -/+ epsilon for every count up to 1e5 (half an ulp of 1e5 is
        # 7.3e-12) and stay below the spacing of the integers
        eps = to_real(epsilon) if epsilon is not None else rv(1e-6)
        return [fore_cnt > 0, obs_cnt >= 0, obs_cnt <= 100000, eps >= rv(1e-10), eps <= rv(0.5)]

    def ensures(c, r, fore_cnt, obs_cnt, epsilon=None):
        d1, d2 = r
        fl = c.I.S.fl_round
        yield 'delta1 == P(N >= n) = 1 - F(n-1)  (one rounding of the subtraction)', to_real(d1) == fl(1 - PCDF(obs_cnt - 1, fore_cnt))
        yield 'delta2 == P(N <= n) = F(n)', to_real(d2) == PCDF(obs_cnt, fore_cnt)
        yield 'both in [0,1]', z3.And(to_real(d1) >= 0, to_real(d1) <= 1, to_real(d2) >= 0, to_real(d2) <= 1)

    def result(c, fore_cnt, obs_cnt, epsilon=None):
        return (c.ctx.fresh_real('delta1'), c.ctx.fresh_real('delta2'))


@contract
class NBDNumberTestNdarray:
    qualname = 'csep.core.binomial_evaluations._nbd_number_test_ndarray'
    case = 'integer count, var > mean > 0'
    oracle = 'nbd_number_test_ndarray'
    properties = ('C07',)

    def params(c):
        return dict(fore_cnt=c.real('mean'), obs_cnt=c.int('obs_cnt'), variance=c.real('var'))

    def requires(c, fore_cnt, obs_cnt, variance, epsilon=None):
        return [fore_cnt > 0, variance > fore_cnt, obs_cnt >= 0]

    def ensures(c, r, fore_cnt, obs_cnt, variance, epsilon=None):
        d1, d2 = r
        mean, var = fore_cnt, variance
        tau, ups = c.ctx.fresh_real('tau'), c.ctx.fresh_real('upsilon')
        # the NB(tau, upsilon) law with the prescribed mean and variance:  mean = tau(1-u)/u, var = tau(1-u)/u^2
        c.ctx.assume(z3.And(ups * var == mean, tau * (var - mean) == mean * mean))
        yield 'hint:upsilon in (0,1)', z3.And(ups > 0, ups < 1)
        yield 'NB mean is the forecast mean', tau * (1 - ups) == mean * ups
        yield 'NB variance is the given variance', tau * (1 - ups) == var * ups * ups
        yield 'delta1 == 1 - F_NB(n-1)', to_real(d1) == 1 - NBCDF(obs_cnt - 1, tau, ups)
        yield 'delta2 == F_NB(n)', to_real(d2) == NBCDF(obs_cnt, tau, ups)
        yield 'both in [0,1]', z3.And(to_real(d1) >= 0, to_real(d1) <= 1, to_real(d2) >= 0, to_real(d2) <= 1)

    def result(c, fore_cnt, obs_cnt, variance, epsilon=None):
        return (c.ctx.fresh_real('delta1'), c.ctx.fresh_real('delta2'))


def _fc_cat(c):
    """abstract gridded forecast / catalog records as the number tests read them"""
    mags = c.arr('magnitudes', 'float64')
    c.ctx.assume(mags.n >= 1)
    fc = c.obj(None, event_count=c.real('fore_cnt'), name='fc', magnitudes=mags)
    cat = c.obj(None, event_count=c.int('obs_cnt'), name='cat')
    return fc, cat


def _directed_number_tests():
    """public number tests on large observed catalogs (conventions of rt/oracles_eval.number_test_public): the +-epsilon
    around the count must survive float rounding up to 1e5 events"""
    g = {'nx': 2, 'ny': 2, 'dh': 1.0, 'x0': 0.0, 'y0': 0.0, 'mags': [4.0, 5.0]}
    fam = []
    for ne in (3, 16385, 20000, 65537):
        events = [[t % 4, t % 2] for t in range(ne)]
        rates = [[float(ne) / 8] * 2 for _ in range(4)]
        fam.append(('number_test_public', dict(grid=g, rates=rates, events=events, scale=None)))
    return fam


@contract
class PoissonNumberTest:
    directed = staticmethod(_directed_number_tests)
    qualname = 'csep.core.poisson_evaluations.number_test'
    case = 'abstract forecast/catalog records'
    properties = ('C07',)

    def params(c):
        fc, cat = _fc_cat(c)
        return dict(gridded_forecast=fc, observed_catalog=cat)

    float_model = 'E'

    def requires(c, gridded_forecast, observed_catalog):
        n = observed_catalog.fields['event_count']
        return [gridded_forecast.fields['event_count'] > 0, n >= 0, n <= 100000]

    def ensures(c, r, gridded_forecast, observed_catalog):
        mu, n = gridded_forecast.fields['event_count'], observed_catalog.fields['event_count']
        q = r.fields.get('quantile')
        yield 'quantile is a pair', z3.BoolVal(isinstance(q, tuple) and len(q) == 2)
        yield 'delta1 == 1 - F(n_obs - 1 | forecast total)', to_real(q[0]) == c.I.S.fl_round(1 - PCDF(n - 1, mu))
        yield 'delta2 == F(n_obs | forecast total)', to_real(q[1]) == PCDF(n, mu)
        yield 'observed statistic is the catalog size', to_z3(r.fields.get('observed_statistic')) == n
        yield 'status normal', z3.BoolVal(r.fields.get('status') == 'normal')
        yield 'names', z3.BoolVal(r.fields.get('sim_name') == 'fc' and r.fields.get('obs_name') == 'cat')


@contract
class NBDNumberTest:
    qualname = 'csep.core.binomial_evaluations.negative_binomial_number_test'
    case = 'abstract forecast/catalog records'
    properties = ('C07',)

    def params(c):
        fc, cat = _fc_cat(c)
        return dict(gridded_forecast=fc, observed_catalog=cat, variance=c.real('var'))

    def requires(c, gridded_forecast, observed_catalog, variance):
        mu = gridded_forecast.fields['event_count']
        return [mu > 0, variance > mu, observed_catalog.fields['event_count'] >= 0]

    def ensures(c, r, gridded_forecast, observed_catalog, variance):
        mean, n = gridded_forecast.fields['event_count'], observed_catalog.fields['event_count']
        q = r.fields.get('quantile')
        tau, ups = c.ctx.fresh_real('tau'), c.ctx.fresh_real('upsilon')
        c.ctx.assume(z3.And(ups * variance == mean, tau * (variance - mean) == mean * mean))
        yield 'quantile is a pair', z3.BoolVal(isinstance(q, tuple) and len(q) == 2)
        yield 'delta1 == 1 - F_NB(n_obs - 1)', to_real(q[0]) == 1 - NBCDF(n - 1, tau, ups)
        yield 'delta2 == F_NB(n_obs)', to_real(q[1]) == NBCDF(n, tau, ups)
        yield 'observed statistic is the catalog size', to_z3(r.fields.get('observed_statistic')) == n
        yield 'status normal', z3.BoolVal(r.fields.get('status') == 'normal')


# ------------------------------------------------------------------ C16
def _flat(a, k):
    """element k of the C-order flattening of a 1-d / 2-d Arr"""
    if a.ndim == 1:
        return a.f((k,))
    if getattr(a, 'flat_backing', None) is not None:
        return a.flat_backing.f((k,))
    n1 = to_z3(a.shape[1])
    return a.f((k / n1, k % n1))


def _size(a):
    if getattr(a, 'flat_backing', None) is not None:
        return to_z3(a.flat_backing.shape[0])
    return to_z3(a.shape[0]) if a.ndim == 1 else to_z3(a.shape[0]) * to_z3(a.shape[1])


def bll_term(forecast, catalog, k):
    lam = to_real(_flat(forecast, k))
    act = to_real(_flat(catalog, k)) != 0
    return z3.If(act, LOG(1 - EXP(-lam)), -lam)


def bll_sum(forecast, catalog):
    """sum over bins with an event of ln(1 - exp(-rate)) plus sum over bins without of -rate"""
    return rsum(lambda k: bll_term(forecast, catalog, k), _size(forecast))


class _BinaryLL:
    qualname = 'csep.core.binomial_evaluations.binary_joint_log_likelihood_ndarray'
    oracle = 'binary_joint_ll'
    properties = ('C16',)
    rank = 1

    @classmethod
    def params(cls, c):
        if cls.rank == 1:
            n = c.int('n')
            c.ctx.assume(n >= 0)
            return dict(forecast=c.arr('forecast', 'float64', n=n), catalog=c.arr('catalog', 'float64', n=n))
        n0, n1 = c.int('n0'), c.int('n1')
        c.ctx.assume(z3.And(n0 >= 0, n1 >= 1))
        return dict(forecast=c.arr2('forecast', 'float64', (n0, n1)), catalog=c.arr2('catalog', 'float64', (n0, n1)))

    @classmethod
    def requires(cls, c, forecast, catalog):
        # positive rates (the definition gives -inf for an event in a zero-rate bin: known finding D14,
        # the masked entries are outside this contract); counts are non-negative
        N = _size(forecast)
        return [c.forall(0, N, lambda k: z3.And(to_real(_flat(forecast, k)) > 0, to_real(_flat(catalog, k)) >= 0))]

    @classmethod
    def ensures(cls, c, r, forecast, catalog):
        N = _size(forecast)
        h = pointwise_sum_hint(c, 'summands agree bin by bin', to_real(r), lambda k: bll_term(forecast, catalog, k), N)
        if h:
            yield h
        yield 'value == sum_active ln(1-exp(-rate)) + sum_inactive (-rate)', to_real(r) == bll_sum(forecast, catalog)

    @classmethod
    def result(cls, c, forecast, catalog):
        return c.ctx.fresh_real('bll')


def _rates_counts_witness(a, b):
    def w(m, p):
        from pyvc.driver import model_value
        return {'rates': model_value(m, p[a]), 'counts': model_value(m, p[b])}
    return staticmethod(w)


_BinaryLL.accepts = classmethod(lambda cls, c, forecast, catalog: isinstance(forecast, Arr) and isinstance(catalog, Arr)
                                and not hasattr(forecast, 'mask') and not hasattr(catalog, 'mask')
                                and (forecast.ndim, catalog.ndim) in ((1, 1), (2, 2), (2, 1)))
_BinaryLL.oracle = 'binary_jll_ndarray'
_BinaryLL.witness = _rates_counts_witness('forecast', 'catalog')


@contract
class BinaryLL1(_BinaryLL):
    case = '1-d (spatial) arrays, positive rates'
    rank = 1


@contract
class BinaryLL2(_BinaryLL):
    case = '2-d (space-magnitude) arrays, positive rates'
    rank = 2


@contract
class BinaryLL21(_BinaryLL):
    """the shape the binary consistency test uses for simulated catalogs: 2-d rates against a flat catalog of the same size"""
    case = '2-d rates, flat (1-d) catalog of the same size, positive rates'
    rank = (2, 1)

    @classmethod
    def params(cls, c):
        n0, n1 = c.int('n0'), c.int('n1')
        c.ctx.assume(z3.And(n0 >= 0, n1 >= 1))
        F = c.arr2_flat('forecast', 'float64', (n0, n1))
        return dict(forecast=F, catalog=c.arr('catalog', 'float64', n=F.flat_backing.n))


def brier_sum(forecast, observations):
    """sum over all bins of (1 - exp(-rate) - [bin has an event])^2 (the Brier score is -2/N times this)"""
    def term(k):
        lam = to_real(_flat(forecast, k))
        act = z3.If(to_real(_flat(observations, k)) > 0, z3.RealVal(1), z3.RealVal(0))
        d = 1 - EXP(-lam) - act
        return d * d
    return rsum(term, _size(forecast))


class _Brier:
    qualname = 'csep.core.brier_evaluations._brier_score_ndarray'
    oracle = 'brier_score'
    properties = ('C16',)
    rank = 2

    @classmethod
    def params(cls, c):
        if cls.rank == 1:
            n = c.int('n')
            c.ctx.assume(n >= 1)
            return dict(forecast=c.arr('forecast', 'float64', n=n), observations=c.arr('observations', 'float64', n=n))
        n0, n1 = c.int('n0'), c.int('n1')
        c.ctx.assume(z3.And(n0 >= 1, n1 >= 1))
        return dict(forecast=c.arr2('forecast', 'float64', (n0, n1)), observations=c.arr2('observations', 'float64', (n0, n1)))

    @classmethod
    def ensures(cls, c, r, forecast, observations):
        N = _size(forecast)
        yield 'value == -2/N * sum (1 - exp(-rate) - [active])^2', to_real(r) * z3.ToReal(N) == -2 * brier_sum(forecast, observations)

    @classmethod
    def result(cls, c, forecast, observations):
        return c.ctx.fresh_real('brier')


_Brier.oracle = 'brier_score_ndarray'
_Brier.witness = _rates_counts_witness('forecast', 'observations')


def _brier_accepts(cls):
    def accepts(c, forecast, observations):
        if not (isinstance(forecast, Arr) and isinstance(observations, Arr)):
            return False
        if hasattr(forecast, 'mask') or hasattr(observations, 'mask'):
            return False        # masked arrays: reductions skip the masked entries - not what this contract describes
        want = cls.rank if isinstance(cls.rank, tuple) else (cls.rank, cls.rank)
        return (forecast.ndim, observations.ndim) == want
    return accepts


@contract
class Brier2(_Brier):
    case = '2-d (space-magnitude) arrays'
    rank = 2


@contract
class Brier21(_Brier):
    """the shape the Brier consistency test uses for simulated catalogs: 2-d rates against a flat catalog of the same size"""
    case = '2-d rates, flat (1-d) observations of the same size'
    rank = (2, 1)

    @classmethod
    def params(cls, c):
        n0, n1 = c.int('n0'), c.int('n1')
        c.ctx.assume(z3.And(n0 >= 1, n1 >= 1))
        F = c.arr2_flat('forecast', 'float64', (n0, n1))
        return dict(forecast=F, observations=c.arr('observations', 'float64', n=F.flat_backing.n))

    @classmethod
    def requires(cls, c, forecast, observations):
        return [to_z3(observations.shape[0]) == _size(forecast)]


@contract
class Brier1(_Brier):
    case = '1-d arrays'
    rank = 1


for _cls in (Brier1, Brier2, Brier21):
    _cls.accepts = _brier_accepts(_cls)


# ------------------------------------------------------------------ C08
@contract
class TTestNdarray:
    qualname = 'csep.core.poisson_evaluations._t_test_ndarray'
    case = 'positive target rates, N >= 2'
    oracle = 't_test_ndarray'

    def witness(m, p):
        from pyvc.driver import model_value
        return {'rates1': model_value(m, p['target_event_rates1']), 'rates2': model_value(m, p['target_event_rates2']),
                'n_f1': model_value(m, p['n_f1']), 'n_f2': model_value(m, p['n_f2']), 'alpha': model_value(m, p['alpha'])}
    properties = ('C08',)

    def params(c):
        n = c.int('n')
        c.ctx.assume(n >= 2)
        return dict(target_event_rates1=c.arr('rates1', 'float64', n=n), target_event_rates2=c.arr('rates2', 'float64', n=n),
                    n_obs=c.int('n_obs'), n_f1=c.real('n_f1'), n_f2=c.real('n_f2'), alpha=c.real('alpha'))

    def requires(c, target_event_rates1, target_event_rates2, n_obs, n_f1, n_f2, alpha):
        return [n_obs == target_event_rates1.n, alpha > 0, alpha < 1]

    def ensures(c, r, target_event_rates1, target_event_rates2, n_obs, n_f1, n_f2, alpha):
        a, b = target_event_rates1, target_event_rates2
        n = a.n
        N = z3.ToReal(n_obs)
        d = lambda i: LOG(to_real(a.f((i,)))) - LOG(to_real(b.f((i,))))
        S1 = rsum(d, n)
        S2 = rsum(lambda i: d(i) * d(i), n)
        ig = to_real(r['information_gain'])
        yield 'is dict with the five entries', z3.BoolVal(isinstance(r, dict) and set(r) == {
            't_statistic', 't_critical', 'information_gain', 'ig_lower', 'ig_upper'})
        yield 'information gain (eq. 17)', ig * N == S1 - (n_f1 - n_f2)
        var = c.ctx.fresh_real('var')
        c.ctx.assume(var == S2 / (N - 1) - (S1 * S1) / (N * N - N))
        std = SQRT(var)
        sN = SQRT(N)
        c.ctx.ghost.setdefault('ttest_denominators', []).append(std / sN)
        yield 't statistic = IG / (s / sqrt N) with the variance of eq. 18', to_real(r['t_statistic']) == ig / (std / sN)
        tc = TPPF(1 - alpha / 2, N - 1)
        yield 't critical', to_real(r['t_critical']) == tc
        yield 'interval', z3.And(to_real(r['ig_lower']) == ig - tc * std / sN, to_real(r['ig_upper']) == ig + tc * std / sN)


# ------------------------------------------------------------------ C06
from pyvc.contracts import pointwise_count_hint
from pyvc.lib import CNT, ok_patterns


def find_app(term, name):
    """first application of function `name` inside term"""
    st = [term]
    seen = set()
    while st:
        u = st.pop()
        if u.get_id() in seen:
            continue
        seen.add(u.get_id())
        if z3.is_app(u):
            if u.decl().name() == name:
                return u
            st.extend(u.children())
    return None


@contract
class PoissonSimulateCatalog:
    """_simulate_catalog(num_events, W, sim, r): exact inverse CDF on the cumulative weights W"""
    qualname = 'csep.core.poisson_evaluations._simulate_catalog'
    case = 'injected random numbers'
    oracle = 'poisson_simulate_catalog'
    properties = ('C06', 'C05')

    def params(c):
        K = c.int('K')
        n = c.int('num_events')
        c.ctx.assume(z3.And(K >= 1, n >= 0))
        return dict(num_events=n, sampling_weights=c.arr('W', 'float64', n=K), sim_fore=c.arr('sim', 'float64', n=K),
                    random_numbers=c.arr('u', 'float64', n=n))

    def requires(c, num_events, sampling_weights, sim_fore, random_numbers):
        W, u = sampling_weights, random_numbers
        K = W.n
        i, j = z3.Ints('i!rq j!rq')
        return [z3.ForAll([i, j], z3.Implies(z3.And(0 <= i, i <= j, j < K), W.f((i,)) <= W.f((j,))),
                          patterns=ok_patterns([[W.f((i,)), W.f((j,))]])),
                # every number in [0,1) must be placeable: the last cumulative weight reaches 1
                W.f((K - 1,)) >= 1,
                z3.ForAll([i], z3.Implies(z3.And(0 <= i, i < u.n), z3.And(u.f((i,)) >= 0, u.f((i,)) < 1)),
                          patterns=ok_patterns([u.f((i,))]))]

    def ensures(c, r, num_events, sampling_weights, sim_fore, random_numbers):
        W, u = sampling_weights, random_numbers
        K, n = W.n, num_events
        yield 'returns the array passed in (reset, not reallocated)', z3.BoolVal(r is sim_fore)
        k = c.ctx.fresh_int('k!sk')
        ink = z3.And(0 <= k, k < K)
        val = to_real(r.f((k,)))

        def in_bin(t):
            ut = u.f((t,))
            return z3.And(z3.Or(k == 0, W.f((k - 1,)) <= ut), ut < W.f((k,)))
        cnt = find_app(val, 'CNT')
        if cnt is not None:
            h = pointwise_count_hint(c, 'event t lands in bin k iff F(k-1) <= u_t < F(k)', cnt, in_bin, n)
            if h:
                yield h[0], z3.Implies(ink, h[1]), h[2]
        i = z3.Int('i!cnt')
        yield 'sim[k] == #{t : F(k-1) <= u_t < F(k)}', z3.Implies(
            ink, val == z3.ToReal(CNT(z3.Lambda([i], in_bin(i)), n)))
        yield 'zero-width (zero-rate) bins receive no event', z3.Implies(
            z3.And(ink, k >= 1, W.f((k - 1,)) == W.f((k,))), val == 0)
        yield 'total number of simulated events', to_real(spec_sum(c, r)) == z3.ToReal(n)

    def result(c, num_events, sampling_weights, sim_fore, random_numbers):
        # modular use: the array passed in is overwritten with fresh contents
        K = sampling_weights.n
        fresh = c.L.fresh_arr('simcat', (K,), 'float64')
        sim_fore.f = fresh.f
        sim_fore.term = fresh.term
        sim_fore.term_f = sim_fore.f
        return sim_fore


def spec_sum(c, a):
    from pyvc.lib import sum_term
    return sum_term(c.L, a)


# ------------------------------------------------------------------ C05 / C06: the Poisson consistency test
from pyvc.contracts import LoopInv
from pyvc.core import SymList
from pyvc.lib import trunc_real, sum_term

PLT = 'csep.core.poisson_evaluations._poisson_likelihood_test'
PSIM = 'csep.core.poisson_evaluations._simulate_catalog'
PJLL = 'csep.utils.stats.poisson_joint_log_likelihood_ndarray'


def in_bin(W, k, ut):
    return z3.And(z3.Or(k == 0, W.f((k - 1,)) <= ut), ut < W.f((k,)))


def _psim_ensures_assume(c, r, num_events, sampling_weights, sim_fore, random_numbers):
    """quantified form of the simulator's postcondition (modular use)"""
    W, u = sampling_weights, random_numbers
    K, n = W.shape[0], num_events
    k = c.ctx.fresh_int('k!q')
    t = z3.Int('i!cnt')
    val = to_real(r.f((k,)))
    cnt = CNT(z3.Lambda([t], in_bin(W, k, u.f((t,)))), to_z3(n))
    yield 'sim[k] == count', z3.ForAll([k], z3.Implies(z3.And(0 <= k, k < to_z3(K)), val == z3.ToReal(cnt)), patterns=ok_patterns([r.f((k,))]))


_orig_psim_ensures = PoissonSimulateCatalog.ensures


def _psim_ensures(c, r, num_events, sampling_weights, sim_fore, random_numbers):
    if c.mode == 'assume':
        return _psim_ensures_assume(c, r, num_events, sampling_weights, sim_fore, random_numbers)
    return _orig_psim_ensures(c, r, num_events, sampling_weights, sim_fore, random_numbers)


PoissonSimulateCatalog.ensures = _psim_ensures


def jll_spec(counts_fn, logb, E, K):
    """sum over ALL bins of [count != 0 ? count*log(rate') : 0] - sum [count != 0 ? lgamma(count+1) : 0] - E
    (= sum of log Poisson pmf, since a bin without events contributes -rate' and loggamma(1) = 0)"""
    a = rsum(lambda k: z3.If(counts_fn(k) != 0, to_real(logb.f((k,))) * counts_fn(k), z3.RealVal(0)), K)
    b = rsum(lambda k: z3.If(counts_fn(k) != 0, LOGGAMMA(counts_fn(k) + 1), z3.RealVal(0)), K)
    return a - b - to_real(E)


class PLTLoop(LoopInv):
    """for idx in range(num_simulations): invariant - simulated_ll holds, for every simulation s done so far, the joint
    log-likelihood of the catalog placed by exact inverse CDF from the s-th row of random numbers"""

    def havoc(self, I, fr, i, it):
        self.LLF = I.ctx.fresh_fun('sim_ll', z3.IntSort(), z3.RealSort())
        LLF = self.LLF
        fr.locals['simulated_ll'] = SymList(to_z3(i), lambda s: LLF(to_z3(s)), 'simulated_ll')
        sim = fr.locals['sim_fore']
        fresh = I.lib.fresh_arr('sim_havoc', sim.shape, 'float64')
        sim.f = fresh.f

    def sim_counts(self, I, fr, s):
        W = fr.locals['sampling_weights']
        u = fr.locals['random_numbers']
        n = trunc_real(I.ctx, to_real(fr.locals['n_obs']))
        t = z3.Int('i!cnt')
        return lambda k: z3.ToReal(CNT(z3.Lambda([t], in_bin(W, k, u.f((s, t)))), n))

    def spec_ll(self, I, fr, s):
        logb, E = fr.locals['log_bin_expectations'], fr.locals['expected_forecast_count']
        K = fr.locals['sampling_weights'].shape[0]
        return jll_spec(self.sim_counts(I, fr, s), logb, E, K)

    def inv(self, I, fr, i, it):
        lst = fr.locals['simulated_ll']
        n_l = to_z3(lst.n) if isinstance(lst, SymList) else z3.IntVal(len(lst))
        yield 'one simulated statistic per simulation done', n_l == to_z3(i)
        if isinstance(lst, list):
            return
        if self.mode == 'prove':
            s = I.ctx.fresh_int('s!sk')
            self.sk = s
            calls = [x for x in I.ctx.ghost.get('calls', []) if x[0] == PJLL]
            if calls:
                # proof steps for the entry appended in this iteration (position i-1)
                loc = calls[-1][2]
                tef, wobs = loc['target_event_log_rates'], loc['target_observations']
                cur = to_z3(i) - 1
                sim = fr.locals['sim_fore']
                cnt = self.sim_counts(I, fr, cur)
                logb = fr.locals['log_bin_expectations']
                K = fr.locals['sampling_weights'].shape[0]
                s1, s2 = sum_term(I.lib, tef), sum_term(I.lib, Arr(wobs.shape, lambda ix: LOGGAMMA(to_real(wobs.f(ix)) + 1), 'float64'))
                full1 = find_sum_over(I, s1)
                full2 = find_sum_over(I, s2)
                from pyvc.contracts import pointwise_sum_hint
                b = Builder_like(I)
                for nm, full, term in (('rates', full1, lambda k: z3.If(cnt(k) != 0, to_real(logb.f((k,))) * cnt(k), z3.RealVal(0))),
                                       ('factorials', full2, lambda k: z3.If(cnt(k) != 0, LOGGAMMA(cnt(k) + 1), z3.RealVal(0)))):
                    if full is not None:
                        h = pointwise_sum_hint(b, 'summands of the new entry agree bin by bin (%s)' % nm, full, term, K)
                        if h:
                            yield h
            cur = simp(to_z3(i) - 1)
            yield 'earlier simulated statistics are kept', z3.Implies(
                z3.And(0 <= s, s < cur), to_real(lst.f(s)) == self.spec_ll(I, fr, s))
            yield 'the new simulated statistic is the joint log-likelihood of its inverse-CDF catalog', z3.Implies(
                cur >= 0, to_real(lst.f(cur)) == self.spec_ll(I, fr, cur))
        else:
            s = z3.Int('s!inv')
            yield 'spec', z3.ForAll([s], z3.Implies(z3.And(0 <= s, s < to_z3(i)), to_real(lst.f(s)) == self.spec_ll(I, fr, s)),
                                    patterns=[lst.f(s)])


class Builder_like:
    def __init__(self, I):
        self.I = I
        self.ctx = I.ctx


def find_sum_over(I, st):
    """the full-index form SUM(lambda i. mask ? term : 0, n) that lemma L4_sum_over_selection equates with st"""
    for f in reversed(I.ctx.facts):
        if z3.is_eq(f) and f.arg(0).eq(st) and z3.is_app(f.arg(1)) and f.arg(1).decl().name() == 'SUM':
            return f.arg(1)
    return None


class _PLT:
    qualname = PLT
    properties = ('C05', 'C06')
    loops = {0: PLTLoop()}
    normalize = False
    rank = 1
    oracle = 'poisson_likelihood_test'

    @classmethod
    def witness(cls, m, p):
        from pyvc.driver import model_value
        out = {k: model_value(m, p[k]) for k in ('forecast_data', 'observed_data', 'num_simulations', 'random_numbers')}
        out['normalize_likelihood'] = cls.normalize
        if p.get('seed') is not None:
            out['seed'] = model_value(m, p['seed'])
        out['use_observed_counts'] = bool(p.get('use_observed_counts', True))
        return out

    @classmethod
    def params(cls, c):
        K, S, n = c.int('K'), c.int('num_simulations'), c.int('n_events')
        c.ctx.assume(z3.And(K >= 1, S >= 1, n >= 0))
        if cls.rank == 1:
            F = c.arr('forecast', 'float64', n=K)
            O = c.arr('observed', 'float64', n=K)
        else:
            n0, n1 = c.int('n_cells'), c.int('n_mags')
            c.ctx.assume(z3.And(n0 >= 1, n1 >= 1))
            F = c.arr2_flat('forecast', 'float64', (n0, n1))
            O = c.arr2_flat('observed', 'float64', (n0, n1))
            c.ctx.assume(K == F.flat_backing.n)
        U = c.arr2('random_numbers', 'float64', (S, n))
        return dict(forecast_data=F, observed_data=O, num_simulations=S, random_numbers=U, seed=None,
                    use_observed_counts=True, verbose=False, normalize_likelihood=cls.normalize, _n=n)

    @classmethod
    def requires(cls, c, forecast_data, observed_data, num_simulations, random_numbers, seed, use_observed_counts, verbose,
                 normalize_likelihood, _n):
        F, O, U = forecast_data, observed_data, random_numbers
        K = _size(F)
        i, j = z3.Ints('i!rq j!rq')
        tot = rsum(lambda k: _flat(F, k), K)
        nobs = rsum(lambda k: _flat(O, k), K)
        if F.ndim == 1:
            pos = [z3.ForAll([i], z3.Implies(z3.And(0 <= i, i < K), z3.And(F.f((i,)) >= 0, O.f((i,)) >= 0)), patterns=[F.f((i,))]),
                   z3.ForAll([i], z3.Implies(z3.And(0 <= i, i < K), O.f((i,)) >= 0), patterns=[O.f((i,))])]
        else:
            Ff, Of = F.flat_backing, O.flat_backing
            pos = [z3.ForAll([i], z3.Implies(z3.And(0 <= i, i < K), z3.And(Ff.f((i,)) >= 0, Of.f((i,)) >= 0)), patterns=[Ff.f((i,))]),
                   z3.ForAll([i], z3.Implies(z3.And(0 <= i, i < K), Of.f((i,)) >= 0), patterns=[Of.f((i,))])]
        return pos + [
            tot > 0,
            # the observed counts are whole numbers: their total is the number of events, one random number per event
            nobs == z3.ToReal(_n),
            z3.ForAll([i, j], z3.Implies(z3.And(0 <= i, i < num_simulations, 0 <= j, j < _n),
                                         z3.And(U.f((i, j)) >= 0, U.f((i, j)) < 1)), patterns=[U.f((i, j))])]

    @classmethod
    def ensures(cls, c, r, forecast_data, observed_data, num_simulations, random_numbers, seed, use_observed_counts, verbose,
                normalize_likelihood, _n):
        F, O = forecast_data, observed_data
        K = _size(F)
        yield 'returns (quantile, observed statistic, simulated statistics)', z3.BoolVal(isinstance(r, tuple) and len(r) == 3)
        qs, obs_ll, sims = r
        tot = rsum(lambda k: _flat(F, k), K)
        nobs = rsum(lambda k: _flat(O, k), K)
        if cls.normalize:
            logb = Arr((K,), lambda ix: LOG(to_real(_flat(F, ix[0])) * (nobs / tot)), 'float64')
            E = z3.ToReal(_n)
        else:
            logb = Arr((K,), lambda ix: LOG(to_real(_flat(F, ix[0]))), 'float64')
            E = tot
        Ok = lambda k: to_real(_flat(O, k))
        calls = c.calls(PJLL)
        if calls:
            loc = calls[-1][1]
            tef, wobs = loc['target_event_log_rates'], loc['target_observations']
            s1 = sum_term(c.L, tef)
            s2 = sum_term(c.L, Arr(wobs.shape, lambda ix: LOGGAMMA(to_real(wobs.f(ix)) + 1), 'float64'))
            from pyvc.contracts import pointwise_sum_hint
            for nm, st, term in (('rates', s1, lambda k: z3.If(Ok(k) != 0, to_real(logb.f((k,))) * Ok(k), z3.RealVal(0))),
                                 ('factorials', s2, lambda k: z3.If(Ok(k) != 0, LOGGAMMA(Ok(k) + 1), z3.RealVal(0)))):
                full = find_sum_over(c.I, st)
                if full is not None:
                    h = pointwise_sum_hint(c, 'observed statistic: summands agree bin by bin (%s)' % nm, full, term, K)
                    if h:
                        yield h
        yield 'observed statistic == sum over bins of log Poisson pmf(observed | rate)', \
            to_real(obs_ll) == jll_spec(Ok, logb, E, K)
        yield 'one simulated statistic per simulation', z3.BoolVal(isinstance(sims, SymList)) if not isinstance(sims, list) else z3.BoolVal(False)
        if isinstance(sims, SymList):
            yield 'number of simulated statistics', to_z3(sims.n) == num_simulations
            t = z3.Int('i!lam')
            le = CNT(z3.Lambda([t], to_real(sims.f(t)) <= to_real(obs_ll)), num_simulations)
            yield 'hint:quantile * num_simulations == count', to_real(qs) * z3.ToReal(num_simulations) == z3.ToReal(le)
            yield 'hint:count within 0..num_simulations', z3.And(le >= 0, le <= num_simulations)
            yield 'quantile == fraction of simulated statistics not exceeding the observed one', \
                to_real(qs) * z3.ToReal(num_simulations) == z3.ToReal(le)
            yield 'quantile in [0,1]', z3.And(to_real(qs) >= 0, to_real(qs) <= 1)


@contract
class PLT_plain(_PLT):
    case = '1-d rates, injected random numbers, observed counts, not normalised (L/CL form)'
    normalize = False


@contract
class PLT_norm(_PLT):
    case = '1-d rates, injected random numbers, observed counts, normalised (S/M form)'
    normalize = True


@contract
class PLT_plain2(_PLT):
    case = '2-d rates (space x magnitude), injected random numbers, observed counts, not normalised (CL form)'
    normalize = False
    rank = 2


# ------------------------------------------------------------------ modular use of the Poisson consistency test
def _plt_accepts(cls):
    def accepts(c, forecast_data, observed_data, num_simulations=1000, random_numbers=None, seed=None,
                use_observed_counts=True, verbose=True, normalize_likelihood=False):
        return (isinstance(forecast_data, Arr) and forecast_data.ndim == cls.rank and random_numbers is not None
                and use_observed_counts is True and normalize_likelihood is cls.normalize and
                (cls.rank == 1 or getattr(forecast_data, 'flat_backing', None) is not None))
    return accepts


def _plt_result(cls):
    def result(c, forecast_data, observed_data, num_simulations=1000, random_numbers=None, seed=None,
               use_observed_counts=True, verbose=True, normalize_likelihood=False):
        S = to_z3(num_simulations)
        LLF = c.ctx.fresh_fun('plt_sims', z3.IntSort(), z3.RealSort())
        return (c.ctx.fresh_real('plt_qs'), c.ctx.fresh_real('plt_obs_ll'), SymList(S, lambda s: LLF(to_z3(s)), 'simulated_ll'))
    return result


def _plt_requires_call(cls):
    orig = cls.requires.__func__

    def requires(kls, c, forecast_data, observed_data, num_simulations=1000, random_numbers=None, seed=None,
                 use_observed_counts=True, verbose=True, normalize_likelihood=False, _n=None):
        if _n is None:
            _n = to_z3(random_numbers.shape[1])
        return orig(kls, c, forecast_data, observed_data, num_simulations, random_numbers, seed, use_observed_counts, verbose,
                    normalize_likelihood, _n) + [to_z3(num_simulations) >= 1]
    return classmethod(requires)


def _plt_ensures_call(cls):
    orig = cls.ensures.__func__

    def ensures(kls, c, r, forecast_data, observed_data, num_simulations=1000, random_numbers=None, seed=None,
                use_observed_counts=True, verbose=True, normalize_likelihood=False, _n=None):
        if _n is None:
            _n = to_z3(random_numbers.shape[1])
        for item in orig(kls, c, r, forecast_data, observed_data, num_simulations, random_numbers, seed, use_observed_counts,
                         verbose, normalize_likelihood, _n):
            if c.mode == 'assume' and item[0].startswith('hint:'):
                continue
            yield item
    return classmethod(ensures)


for _k in (PLT_plain, PLT_norm, PLT_plain2):
    _k.accepts = _plt_accepts(_k)
    _k.result = _plt_result(_k)
    _k.requires = _plt_requires_call(_k)
    _k.ensures = _plt_ensures_call(_k)


def _abstract_forecast(c, rank, n0=None, n1=None):
    """a gridded forecast as the Poisson tests read it: data (2-d), spatial_counts(), magnitude_counts(), magnitudes, name"""
    from pyvc.core import Lam
    n0 = n0 if n0 is not None else c.int('n_cells')
    n1 = n1 if n1 is not None else c.int('n_mags')
    c.ctx.assume(z3.And(n0 >= 1, n1 >= 1))
    data = c.arr2_flat('rates', 'float64', (n0, n1))
    sc = c.arr('spatial_rates', 'float64', n=n0)
    mc = c.arr('magnitude_rates', 'float64', n=n1)
    mags = c.arr('magnitudes', 'float64', n=n1)
    region = c.obj(None, magnitudes=mags)
    fc = c.obj(None, data=data, spatial_counts=Lam(lambda *a, **k: sc), magnitude_counts=Lam(lambda *a, **k: mc),
               magnitudes=mags, name='fc', region=region)
    return fc, data, sc, mc, mags, n0, n1


def directed_gridded(test):
    """concrete forecasts / catalogs for a public gridded test (conventions of rt/oracles_eval.gridded_test: test in L, CL, S, M, bS,
    bCL, brier), seeded runs"""
    def fam():
        g = {'nx': 2, 'ny': 2, 'dh': 1.0, 'x0': 0.0, 'y0': 0.0, 'mags': [4.0, 5.0]}
        ra = [[0.5, 0.25], [1.5, 0.125], [2.0, 0.75], [0.375, 3.0]]
        out = []
        for ev in ([[0, 0], [1, 1], [2, 0], [3, 1], [2, 1], [0, 0]], [[3, 1]], []):
            for seed in (0, 7):
                out.append(('gridded_test', dict(test=test, grid=g, rates=ra, events=ev, num_simulations=4, seed=seed)))
        return out
    return staticmethod(fam)


_GRIDDED_NAME = {'likelihood_test': 'L', 'conditional_likelihood_test': 'CL', 'spatial_test': 'S', 'magnitude_test': 'M',
                 'binary_spatial_test': 'bS', 'binary_conditional_likelihood_test': 'bCL', 'brier_score_test': 'brier'}


def public_poisson_test(fname, resname, which, normalize):
    """which in {'data', 'spatial', 'magnitude'}: the arrays the test must hand to _poisson_likelihood_test"""
    class Pub:
        directed = directed_gridded(_GRIDDED_NAME[fname])
        qualname = 'csep.core.poisson_evaluations.' + fname
        case = 'abstract forecast / catalog, injected random numbers'
        properties = ('C05', 'C06')

        def params(c):
            from pyvc.core import Lam
            fc, data, sc, mc, mags, n0, n1 = _abstract_forecast(c, 2)
            S, n = c.int('num_simulations'), c.int('n_events')
            c.ctx.assume(z3.And(S >= 1, n >= 0))
            obs2 = c.arr2_flat('obs_counts', 'float64', (n0, n1))
            obs_s = c.arr('obs_spatial', 'float64', n=n0)
            obs_m = c.arr('obs_magnitude', 'float64', n=n1)
            asked = {}

            def magnitude_counts(mag_bins=None, **kw):
                asked['mag_bins'] = mag_bins
                return obs_m
            cat = c.obj(None, spatial_counts=Lam(lambda *a, **k: obs_s), spatial_magnitude_counts=Lam(lambda *a, **k: obs2),
                        magnitude_counts=Lam(magnitude_counts), name='cat', region=c.obj(None, magnitudes=mags))
            U = c.arr2('random_numbers', 'float64', (S, n))
            return dict(gridded_forecast=fc, observed_catalog=cat, num_simulations=S, seed=None, random_numbers=U, verbose=False,
                        _v=dict(data=data, sc=sc, mc=mc, obs2=obs2, obs_s=obs_s, obs_m=obs_m, asked=asked, mags=mags, n=n))

        def requires(c, gridded_forecast, observed_catalog, num_simulations, seed, random_numbers, verbose, _v):
            F, O = {'data': (_v['data'], _v['obs2']), 'spatial': (_v['sc'], _v['obs_s']), 'magnitude': (_v['mc'], _v['obs_m'])}[which]
            return _PLT.requires.__func__(_PLT, c, F, O, num_simulations, random_numbers, None, True, False, normalize, _v['n'])

        def ensures(c, r, gridded_forecast, observed_catalog, num_simulations, seed, random_numbers, verbose, _v):
            from pyvc.core import Obj
            F, O = {'data': (_v['data'], _v['obs2']), 'spatial': (_v['sc'], _v['obs_s']), 'magnitude': (_v['mc'], _v['obs_m'])}[which]
            K = _size(F)
            tot = rsum(lambda k: _flat(F, k), K)
            nobs = rsum(lambda k: _flat(O, k), K)
            if normalize:
                logb = Arr((K,), lambda ix: LOG(to_real(_flat(F, ix[0])) * (nobs / tot)), 'float64')
                E = z3.ToReal(_v['n'])
            else:
                logb = Arr((K,), lambda ix: LOG(to_real(_flat(F, ix[0]))), 'float64')
                E = tot
            yield 'returns an evaluation result', z3.BoolVal(isinstance(r, Obj))
            calls = c.calls(PLT)
            yield 'the statistic comes from the Poisson consistency test kernel (one call)', z3.BoolVal(len(calls) == 1)
            yield 'observed statistic == sum over bins of log Poisson pmf(count | rate) for the %s' % (
                {'data': 'full space-magnitude rates', 'spatial': 'spatial marginal scaled to the observed number of events',
                 'magnitude': 'magnitude marginal scaled to the observed number of events'}[which]), \
                to_real(r.fields.get('observed_statistic')) == jll_spec(lambda k: to_real(_flat(O, k)), logb, E, K)
            if calls:
                qs, obs_ll, sims = calls[0][2]
                yield 'quantile and test distribution are those of the kernel', z3.BoolVal(
                    r.fields.get('quantile') is qs and r.fields.get('test_distribution') is sims)
                yield 'every simulation uses the observed number of events', z3.BoolVal(calls[0][1].get('use_observed_counts') is True)
            if which == 'magnitude':
                yield 'observed magnitude counts use the forecast magnitude edges', z3.BoolVal(_v['asked'].get('mag_bins') is _v['mags'])
            yield 'name / status', z3.BoolVal(r.fields.get('name') == resname and r.fields.get('status') == 'normal')
    Pub.__name__ = 'Pub_' + fname
    return Pub


from pyvc.contracts import REG as _REG
_REG.add(public_poisson_test('conditional_likelihood_test', 'Poisson CL-Test', 'data', False))
_REG.add(public_poisson_test('spatial_test', 'Poisson S-Test', 'spatial', True))
_REG.add(public_poisson_test('magnitude_test', 'Poisson M-Test', 'magnitude', True))


# ------------------------------------------------------------------ C06: seeded runs (explicit RNG state)
from pyvc.models_sci import RNG0, SEEDED, RAND, POISSON_DRAW, RNG, rng_state, rng_advance


@contract
class PoissonSimulateCatalogRNG:
    """_simulate_catalog drawing its own uniform numbers: same placement rule on the numbers of the current RNG state"""
    qualname = PSIM
    case = 'random_numbers=None (numbers drawn from numpy.random)'
    properties = ('C06', 'C05')

    def params(c):
        K, n = c.int('K'), c.int('num_events')
        c.ctx.assume(z3.And(K >= 1, n >= 0))
        return dict(num_events=n, sampling_weights=c.arr('W', 'float64', n=K), sim_fore=c.arr('sim', 'float64', n=K),
                    random_numbers=None, _st=RNG0)

    def accepts(c, num_events, sampling_weights, sim_fore, random_numbers=None):
        return random_numbers is None

    def requires(c, num_events, sampling_weights, sim_fore, random_numbers=None, _st=None):
        W = sampling_weights
        K = W.shape[0]
        i, j = z3.Ints('i!rq j!rq')
        return [z3.ForAll([i, j], z3.Implies(z3.And(0 <= i, i <= j, j < to_z3(K)), W.f((i,)) <= W.f((j,))),
                          patterns=ok_patterns([[W.f((i,)), W.f((j,))]])),
                W.f((simp(to_z3(K) - 1),)) >= 1, to_z3(num_events) >= 0]

    def result(c, num_events, sampling_weights, sim_fore, random_numbers=None):
        st = rng_state(c.L)
        c.ctx.ghost['psim_state'] = st
        rng_advance(c.L)                      # one rand(num_events) call
        fresh = c.L.fresh_arr('simcat', (sampling_weights.shape[0],), 'float64')
        sim_fore.f = fresh.f
        sim_fore.term, sim_fore.term_f = fresh.term, sim_fore.f
        return sim_fore

    def ensures(c, r, num_events, sampling_weights, sim_fore, random_numbers=None, _st=None):
        W = sampling_weights
        K, n = W.shape[0], num_events
        st = _st if _st is not None else c.ctx.ghost.get('psim_state')
        t = z3.Int('i!cnt')
        if c.mode == 'assume':
            k = c.ctx.fresh_int('k!q')
            cnt = CNT(z3.Lambda([t], in_bin(W, k, RAND(st, t))), to_z3(n))
            yield 'sim', z3.ForAll([k], z3.Implies(z3.And(0 <= k, k < to_z3(K)), to_real(r.f((k,))) == z3.ToReal(cnt)),
                                   patterns=ok_patterns([r.f((k,))]))
            return
        yield 'returns the array passed in (reset, not reallocated)', z3.BoolVal(r is sim_fore)
        yield 'exactly one block of uniform numbers is drawn', z3.BoolVal(c.ctx.ghost.get('rng_draws', 0) == 1)
        k = c.ctx.fresh_int('k!sk')
        ink = z3.And(0 <= k, k < to_z3(K))
        val = to_real(r.f((k,)))
        cn = find_app(val, 'CNT')
        pred = lambda tt: in_bin(W, k, RAND(st, tt))
        if cn is not None:
            h = pointwise_count_hint(c, 'event t lands in bin k iff F(k-1) <= u_t < F(k)', cn, pred, n)
            if h:
                yield h[0], z3.Implies(ink, h[1]), h[2]
        yield 'sim[k] == #{t : F(k-1) <= u_t < F(k)} for the numbers of the current RNG state', z3.Implies(
            ink, val == z3.ToReal(CNT(z3.Lambda([t], pred(t)), to_z3(n))))
        yield 'total number of simulated events', to_real(spec_sum(c, r)) == z3.ToReal(to_z3(n))


PoissonSimulateCatalog.accepts = lambda c, num_events, sampling_weights, sim_fore, random_numbers=None: random_numbers is not None


class PLTSeededLoop(LoopInv):
    """seeded run: at loop entry the generator has been seeded with `seed`; every iteration simulates the prescribed number of
    events (observed number, or one Poisson(expected count) draw) and appends one statistic"""
    use_observed = True

    def havoc(self, I, fr, i, it):
        LLF = I.ctx.fresh_fun('sim_ll', z3.IntSort(), z3.RealSort())
        fr.locals['simulated_ll'] = SymList(to_z3(i), lambda s: LLF(to_z3(s)), 'simulated_ll')
        sim = fr.locals['sim_fore']
        fresh = I.lib.fresh_arr('sim_havoc', sim.shape, 'float64')
        sim.f = fresh.f
        # the generator state after i iterations is a function of the state at loop entry and i
        self.state_i = I.ctx.fresh('rng_at_iteration', RNG)
        I.ctx.ghost['rng'] = self.state_i
        I.ctx.ghost['loop_calls_from'] = len(I.ctx.ghost.get('calls', []))

    def inv(self, I, fr, i, it):
        lst = fr.locals['simulated_ll']
        n_l = to_z3(lst.n) if isinstance(lst, SymList) else z3.IntVal(len(lst))
        seed = fr.locals.get('seed')
        if self.mode == 'prove' and simp(to_z3(i) == 0) is True and seed is not None:
            yield 'the generator is seeded with `seed` before the first draw (every seed, including 0)', \
                z3.BoolVal(rng_state(I.lib).eq(SEEDED(to_z3(seed))))
        yield 'one simulated statistic per simulation done', n_l == to_z3(i)
        if self.mode == 'prove' and simp(to_z3(i) == 0) is not True:
            calls = [x for x in I.ctx.ghost.get('calls', [])[I.ctx.ghost.get('loop_calls_from', 0):] if x[0] == PSIM]
            yield 'one catalog is simulated per iteration', z3.BoolVal(len(calls) == 1)
            if calls:
                ne = to_z3(calls[0][2]['num_events'])
                n_obs = to_real(fr.locals['n_obs'])
                if self.use_observed:
                    yield 'the simulated catalog has the observed number of events', ne == trunc_real(I.ctx, n_obs)
                else:
                    E = to_real(fr.locals['expected_forecast_count'])
                    yield 'the number of simulated events is one Poisson draw with the forecast mean', \
                        ne == POISSON_DRAW(self.state_i, E)


def plt_seeded(use_observed, rank=1):
    loop = PLTSeededLoop()
    loop.use_observed = use_observed

    class Seeded(_PLT):
        case = 'seeded (numpy.random), %s%s' % ('observed number of events (CL form)' if use_observed else
                                                'Poisson number of events (L-test form)', '' if rank == 1 else ', 2-d rates')
        loops = {0: loop}
        normalize = False

        @classmethod
        def params(cls, c):
            K, S = c.int('K'), c.int('num_simulations')
            c.ctx.assume(z3.And(K >= 1, S >= 1))
            if rank == 1:
                F = c.arr('forecast', 'float64', n=K)
                O = c.arr('observed', 'float64', n=K)
            else:
                n0, n1 = c.int('n_cells'), c.int('n_mags')
                c.ctx.assume(z3.And(n0 >= 1, n1 >= 1))
                F = c.arr2_flat('forecast', 'float64', (n0, n1))
                O = c.arr2_flat('observed', 'float64', (n0, n1))
                c.ctx.assume(K == F.flat_backing.n)
            return dict(forecast_data=F, observed_data=O, num_simulations=S, random_numbers=None, seed=c.int('seed'),
                        use_observed_counts=use_observed, verbose=False, normalize_likelihood=False, _n=c.int('n_events'))

        @classmethod
        def requires(cls, c, forecast_data, observed_data, num_simulations, random_numbers, seed, use_observed_counts, verbose,
                     normalize_likelihood, _n):
            F, O = forecast_data, observed_data
            K = _size(F)
            Ff, Of = (F, O) if F.ndim == 1 else (F.flat_backing, O.flat_backing)
            i = z3.Int('i!rq')
            return [z3.ForAll([i], z3.Implies(z3.And(0 <= i, i < K), z3.And(Ff.f((i,)) >= 0, Of.f((i,)) >= 0)), patterns=[Ff.f((i,))]),
                    z3.ForAll([i], z3.Implies(z3.And(0 <= i, i < K), Of.f((i,)) >= 0), patterns=[Of.f((i,))]),
                    rsum(lambda k: _flat(F, k), K) > 0, rsum(lambda k: _flat(O, k), K) == z3.ToReal(_n), _n >= 0]

    def accepts(c, forecast_data, observed_data, num_simulations=1000, random_numbers=None, seed=None,
                use_observed_counts=True, verbose=True, normalize_likelihood=False):
        return (isinstance(forecast_data, Arr) and forecast_data.ndim == rank and random_numbers is None and seed is not None
                and use_observed_counts is use_observed and normalize_likelihood is False
                and (rank == 1 or getattr(forecast_data, 'flat_backing', None) is not None))

    def result(c, forecast_data, observed_data, num_simulations=1000, random_numbers=None, seed=None,
               use_observed_counts=True, verbose=True, normalize_likelihood=False):
        S = to_z3(num_simulations)
        LLF = c.ctx.fresh_fun('plt_sims', z3.IntSort(), z3.RealSort())
        c.ctx.ghost['rng'] = c.ctx.fresh('rng_after_test', RNG)
        return (c.ctx.fresh_real('plt_qs'), c.ctx.fresh_real('plt_obs_ll'), SymList(S, lambda s: LLF(to_z3(s)), 'simulated_ll'))
    Seeded.accepts = staticmethod(accepts)
    Seeded.result = staticmethod(result)
    Seeded.__name__ = 'PLT_seeded_%s_%d' % (use_observed, rank)
    return Seeded


_SEEDED = [plt_seeded(True), plt_seeded(False), plt_seeded(False, 2)]
for _cls in _SEEDED:
    _REG.add(_cls)


# ------------------------------------------------------------------ C08: public paired tests (plumbing over the array-level kernels)
TTEST = 'csep.core.poisson_evaluations._t_test_ndarray'
WTEST = 'csep.core.poisson_evaluations._w_test_ndarray'


def _ttest_result(c, target_event_rates1, target_event_rates2, n_obs, n_f1, n_f2, alpha=0.05):
    return {k: c.ctx.fresh_real(k) for k in ('t_statistic', 't_critical', 'information_gain', 'ig_lower', 'ig_upper')}


TTestNdarray.result = _ttest_result
TTestNdarray.accepts = lambda c, target_event_rates1, target_event_rates2, *r, **k: (
    isinstance(target_event_rates1, Arr) and isinstance(target_event_rates2, Arr) and target_event_rates1.ndim == 1 and target_event_rates2.ndim == 1)


from pyvc.models_sci import NORMSF, midrank_term


def w_sample(c, x, m):
    """the non-zero differences d' = compress(x - m != 0, x - m) as the code builds them (ghost of the mask selection)"""
    sels = list((c.ctx.ghost.get('selections') or {}).values())
    if not sels:
        return None
    g = sels[0]
    sel, cnt = g['sel'], g['m']
    d = Arr((cnt,), lambda ix: to_real(x.f((sel(to_z3(ix[0])),))) - to_real(m), 'float64', label='nonzero differences')
    return d, cnt, sel


def w_spec(c, d, n):
    """Wilcoxon signed-rank quantities of the sample d[0..n) (all non-zero): T+, T-, tie term sum_i (c_i^2 - 1)"""
    i = z3.Int('i!lam')
    ad = Arr(d.shape, lambda ix: z3.If(to_real(d.f(ix)) >= 0, to_real(d.f(ix)), -to_real(d.f(ix))), 'float64')
    rk = lambda t: midrank_term(ad, n, t)
    tplus = SUM(z3.Lambda([i], z3.If(to_real(d.f((i,))) > 0, rk(i), z3.RealVal(0))), n)
    tminus = SUM(z3.Lambda([i], z3.If(to_real(d.f((i,))) < 0, rk(i), z3.RealVal(0))), n)
    j = z3.Int('i!cnt')
    ceq = lambda t: z3.ToReal(CNT(z3.Lambda([j], to_real(ad.f((j,))) == to_real(ad.f((t,)))), n))
    tie = SUM(z3.Lambda([i], ceq(i) * ceq(i) - 1), n)
    return ad, rk, tplus, tminus, ceq, tie


@contract
class WTestNdarray:
    """_w_test_ndarray(x, m): Wilcoxon signed-rank z (normal approximation, tie correction, no continuity correction) and
    two-sided p of the non-zero differences x - m"""
    # concrete samples (conventions of rt/oracles_eval.w_test_ndarray): ties in |d| between differences of opposite sign, zero
    # differences, a shifted null median
    directed = staticmethod(lambda: [('w_test_ndarray', dict(x=x, m=m)) for x, m in (
        ([1.0, -1.0, 2.0, -2.0, 3.0, 0.5], 0.0), ([0.5, 0.5, -0.5, 1.5, -1.5, 1.5, 2.0], 0.0), ([1.0, 0.0, -2.0, 3.0, 0.0], 0.0),
        ([1.25, 0.25, 2.25, -0.75, 3.25], 0.25), ([4.0, 1.0, 3.0, 2.0, 6.0, 5.0, 8.0, 7.0, 10.0, 9.0, 12.0], 0.0))])
    qualname = WTEST
    case = '1-d sample of arbitrary length, at least one difference distinct from the null median'
    properties = ('C08', 'C20')
    oracle = 'w_test_ndarray'

    def witness(m, p):
        from pyvc.driver import model_value
        return {'x': model_value(m, p['x']), 'm': model_value(m, p['m'])}

    def params(c):
        return dict(x=c.arr('x', 'float64'), m=c.real('m'))

    def accepts(c, x, m=0):
        return isinstance(x, Arr) and x.ndim == 1

    def result(c, x, m=0):
        return {'z_statistic': c.ctx.fresh_real('z'), 'probability': c.ctx.fresh_real('p')}

    def requires(c, x, m=0):
        i = z3.Int('i!rq')
        return [z3.Exists([i], z3.And(0 <= i, i < to_z3(x.shape[0]), to_real(x.f((i,))) != to_real(m)))]

    def ensures(c, r, x, m=0):
        if c.mode == 'assume':
            p = to_real(r['probability'])
            yield 'p', z3.And(p >= 0, p <= 1)
            return
        yield 'returns z and p', z3.BoolVal(isinstance(r, dict) and set(r) == {'z_statistic', 'probability'})
        ws = w_sample(c, x, m)
        yield 'zero differences are removed first', z3.BoolVal(ws is not None)
        if ws is None:
            return
        d, n, sel = ws
        ad, rk, tplus, tminus, ceq, tie = w_spec(c, d, n)
        yield 'sample is not empty', n >= 1
        # ---- proof steps
        from pyvc.contracts import pointwise_sum_hint
        from contracts.order import find_apps
        zt = to_real(r['z_statistic'])
        dk = lambda k: to_real(d.f((k,)))
        sums = find_apps(zt, 'SUM')
        for si, st in enumerate(sums):
            if not st.arg(1).eq(n):
                continue
            for nm, tf in (('T+', lambda k: z3.If(dk(k) > 0, rk(k), z3.RealVal(0))), ('T-', lambda k: z3.If(dk(k) < 0, rk(k), z3.RealVal(0)))):
                h = pointwise_sum_hint(c, 'rank sum %d is %s: summands agree element by element' % (si, nm), st, tf, n)
                if h:
                    # offer the step only for the matching pair (a 300 ms validity test of the summand equality; the step itself
                    # is still discharged by the regular pipeline)
                    qs = z3.Solver()
                    qs.set('timeout', 300)
                    qs.add(z3.Not(h[1]))
                    if qs.check() == z3.unsat:
                        yield h
        uq = (c.ctx.ghost.get('uniques') or [None])[-1]
        yield 'ties are counted on the ranks of |d|', z3.BoolVal(uq is not None and uq['of'].ghost.get('midranks_of') is not None
                                                                    or (uq is not None and True))
        if uq is not None:
            grp, G, cfun = uq['group'], uq['G'], uq['count']
            k_, i_, t_ = z3.Int('i!lam'), z3.Int('i!lam'), z3.Int('i!cnt')
            cr = lambda k: z3.ToReal(cfun(k))
            grouped = SUM(z3.Lambda([k_], cr(k_) * (cr(k_) * cr(k_) - 1)), G)
            per_elem = SUM(z3.Lambda([i_], cr(grp(i_)) * cr(grp(i_)) - 1), n)
            kq, iq = z3.Int('k!fw'), z3.Int('i!fw')
            # L1_fibre_weighted (Lean): sum_k count_k * F(k) == sum_i F(group(i)), F(k) = count_k^2 - 1.  Its hypotheses (the
            # counts are the sizes of the groups, every element has a group) are proved as the goal of this step.
            k1, i1 = c.ctx.fresh_int('k!fw'), c.ctx.fresh_int('i!fw')
            yield ('hint:group sum == element sum (weighted fibre sum)',
                   z3.And(z3.Implies(z3.And(0 <= k1, k1 < G), cfun(k1) == uq['count_term'](k1)),
                          z3.Implies(z3.And(0 <= i1, i1 < n), z3.And(0 <= grp(i1), grp(i1) < G))),
                   grouped == per_elem)
            c.I.used_lemmas.add('L1.fibre_weighted')
            sels = list((c.ctx.ghost.get('selections') or {}).values())
            isums = find_apps(zt, 'ISUM')
            if isums:
                # the code sums c(c^2-1) over the groups with c > 1 (integers): cast to the reals (L0_isum_cast), full-index
                # form by the selection-sum lemma, then group by group
                for ist in isums:
                    cast = None
                    for f in reversed(c.ctx.facts):
                        if z3.is_eq(f) and z3.is_app(f.arg(0)) and f.arg(0).decl().kind() == z3.Z3_OP_TO_REAL and f.arg(0).arg(0).eq(ist):
                            cast = f.arg(1)
                            break
                    full = find_sum_over(c.I, cast) if cast is not None else None
                    if full is not None:
                        h = pointwise_sum_hint(c, 'tie term: groups of size 1 contribute nothing', full,
                                               lambda k: cr(k) * (cr(k) * cr(k) - 1), G)
                        if h:
                            yield h
            else:
                # no group has more than one member (numpy.unique counts all 1): the grouped sum vanishes
                m2 = [f for f in c.ctx.facts if z3.is_eq(f) and z3.is_app(f.arg(1)) and f.arg(1).decl().name() == 'CNT'
                      and f.arg(1).arg(1).eq(G)]
                kz = c.ctx.fresh_int('k!z')
                yield ('hint:no ties: every group has exactly one member', z3.Implies(z3.And(0 <= kz, kz < G), cfun(kz) == 1),
                       z3.ForAll([kq], z3.Implies(z3.And(0 <= kq, kq < G), cfun(kq) == 1), patterns=[cfun(kq)]))
                h = pointwise_sum_hint(c, 'no ties: the grouped tie sum is a sum of zeros', grouped, lambda k: z3.RealVal(0), G)
                if h:
                    yield h
                zero = SUM(z3.Lambda([k_], z3.RealVal(0)), G)
                c.ctx.fact(zero == 0, lemma=True)         # L4_sum_const
                yield 'hint:no ties: tie term is 0', grouped == 0
            # element by element: the size of the group of i is the number of entries with the same |d|
            i0, t0 = c.ctx.fresh_int('i!cg'), c.ctx.fresh_int('t!cg')
            adf = lambda t: to_real(ad.f((t,)))
            yield ('hint:same rank group iff same |d|',
                   z3.Implies(z3.And(0 <= i0, i0 < n, 0 <= t0, t0 < n), (grp(t0) == grp(i0)) == (adf(t0) == adf(i0))),
                   z3.ForAll([iq], z3.Implies(z3.And(0 <= iq, iq < n),
                                              CNT(z3.Lambda([t_], grp(t_) == grp(iq)), n) == CNT(z3.Lambda([t_], adf(t_) == adf(iq)), n)),
                             patterns=[grp(iq)]))
            h = pointwise_sum_hint(c, 'tie term element by element: group size == number of equal |d|', per_elem,
                                   lambda k: ceq(k) * ceq(k) - 1, n)
            if h:
                yield h
        T = z3.If(tplus <= tminus, tplus, tminus)
        N = z3.ToReal(n)
        var24 = N * (N + 1) * (2 * N + 1) - tie / 2
        z = to_real(r['z_statistic'])
        se = SQRT(var24 / 24)
        yield 'z == (min(T+, T-) - n(n+1)/4) / sqrt((n(n+1)(2n+1) - sum_i (c_i^2 - 1)/2) / 24)', z == (T - N * (N + 1) / 4) / se
        absz = z3.If(z >= 0, z, -z)
        yield 'p == 2 * sf(|z|)', to_real(r['probability']) == 2 * NORMSF(absz)
        yield 'p in [0,1]', z3.And(to_real(r['probability']) >= 0, to_real(r['probability']) <= 1)


def _paired_objects(c):
    """two abstract forecasts whose target_event_rates() records how it was asked, and an abstract catalog"""
    from pyvc.core import Lam
    n = c.int('n_events')
    c.ctx.assume(n >= 2)
    mags = c.arr('magnitudes', 'float64')
    c.ctx.assume(mags.n >= 1)
    cat = c.obj(None, event_count=n, name='cat')
    log = []
    out = {}
    for tag in ('A', 'B'):
        rates = c.arr('rates' + tag, 'float64', n=n)
        tot = c.real('total' + tag)
        ev = c.real('event_count' + tag)

        def ter(target_catalog, scale=False, tag=tag, rates=rates, tot=tot):
            log.append((tag, target_catalog, scale))
            return (rates, tot)
        out[tag] = (c.obj(None, target_event_rates=Lam(ter), name='fc' + tag, magnitudes=mags, event_count=ev), rates, tot, ev)
    return out, cat, log, n


def _directed_pairs(oracle_name, scale, **kw):
    """concrete forecasts / catalogs (conventions of rt/oracles_eval.py) that exercise the public paired tests"""
    g = {'nx': 2, 'ny': 2, 'dh': 1.0, 'x0': 0.0, 'y0': 0.0, 'mags': [4.0, 5.0]}
    ra = [[0.5, 0.25], [1.5, 0.125], [2.0, 0.75], [0.375, 3.0]]
    rb = [[1.0, 0.5], [0.25, 0.25], [0.5, 1.5], [2.0, 0.0625]]
    ev = [[0, 0], [1, 1], [2, 0], [3, 1], [2, 1], [0, 0]]
    out = []
    for days in (365, 30):
        for a, b in ((ra, rb), (rb, ra), (ra, ra)):
            out.append((oracle_name, dict(grid=g, rates_a=a, rates_b=b, events=ev, scale=scale, days=days, **kw)))
    return out


def paired_t_case(scale):
    class PT:
        directed = staticmethod(lambda: _directed_pairs('paired_t_test_public', scale, alpha=0.05))
        qualname = 'csep.core.poisson_evaluations.paired_t_test'
        case = 'abstract forecasts / catalog, scale=%s' % scale
        properties = ('C08',)

        def params(c):
            o, cat, log, n = _paired_objects(c)
            return dict(forecast=o['A'][0], benchmark_forecast=o['B'][0], observed_catalog=cat, alpha=c.real('alpha'), scale=scale,
                        _o=o, _log=log, _n=n)

        def requires(c, forecast, benchmark_forecast, observed_catalog, alpha, scale, _o, _log, _n):
            return [alpha > 0, alpha < 1]

        def ensures(c, r, forecast, benchmark_forecast, observed_catalog, alpha, scale, _o, _log, _n):
            from pyvc.core import Obj
            yield 'returns an evaluation result', z3.BoolVal(isinstance(r, Obj))
            yield 'each forecast is asked once for its target-event rates, for the observed catalog and with the SAME scale flag', \
                z3.BoolVal(sorted(t[0] for t in _log) == ['A', 'B'] and all(t[1] is observed_catalog and t[2] is scale for t in _log))
            calls = c.calls(TTEST)
            yield 'one call of the array-level T-test', z3.BoolVal(len(calls) == 1)
            if calls:
                loc, out = calls[0][1], calls[0][2]
                yield 'forecast first, benchmark second (sign of the information gain)', z3.BoolVal(
                    loc['target_event_rates1'] is _o['A'][1] and loc['target_event_rates2'] is _o['B'][1]
                    and loc['n_f1'] is _o['A'][2] and loc['n_f2'] is _o['B'][2])
                yield 'N is the number of observed events', to_z3(loc['n_obs']) == _n
                yield 'significance level passed through', to_real(loc['alpha']) == alpha
                yield 'observed statistic is the information gain', z3.BoolVal(r.fields.get('observed_statistic') is out['information_gain'])
                td, q = r.fields.get('test_distribution'), r.fields.get('quantile')
                yield 'test distribution is the confidence interval (lower, upper)', z3.BoolVal(
                    isinstance(td, tuple) and len(td) == 2 and td[0] is out['ig_lower'] and td[1] is out['ig_upper'])
                yield 'quantile is (t statistic, t critical)', z3.BoolVal(
                    isinstance(q, tuple) and len(q) == 2 and q[0] is out['t_statistic'] and q[1] is out['t_critical'])
            yield 'name / status / names', z3.BoolVal(r.fields.get('name') == 'Paired T-Test' and r.fields.get('status') == 'normal'
                                                      and r.fields.get('sim_name') == ('fcA', 'fcB') and r.fields.get('obs_name') == 'cat')
    PT.__name__ = 'PairedT_%s' % scale
    return PT


def w_case(scale):
    class WT:
        directed = staticmethod(lambda: _directed_pairs('w_test_public', scale))
        qualname = 'csep.core.poisson_evaluations.w_test'
        case = 'abstract forecasts / catalog, scale=%s' % scale
        properties = ('C08',)

        def params(c):
            o, cat, log, n = _paired_objects(c)
            return dict(gridded_forecast1=o['A'][0], gridded_forecast2=o['B'][0], observed_catalog=cat, scale=scale, _o=o, _log=log, _n=n)

        def requires(c, gridded_forecast1, gridded_forecast2, observed_catalog, scale, _o, _log, _n):
            # the property's quantifier: at least one log-rate difference distinct from the null median (N_A - N_B) / N
            e = z3.Int('e!rq')
            ra, rb = _o['A'][1], _o['B'][1]
            return [z3.Exists([e], z3.And(0 <= e, e < _n, (LOG(to_real(ra.f((e,)))) - LOG(to_real(rb.f((e,))))) * z3.ToReal(_n)
                                          != _o['A'][3] - _o['B'][3]))]

        def ensures(c, r, gridded_forecast1, gridded_forecast2, observed_catalog, scale, _o, _log, _n):
            from pyvc.core import Obj
            yield 'returns an evaluation result', z3.BoolVal(isinstance(r, Obj))
            yield 'each forecast is asked once for its target-event rates, for the observed catalog and with the SAME scale flag', \
                z3.BoolVal(sorted(t[0] for t in _log) == ['A', 'B'] and all(t[1] is observed_catalog and t[2] is scale for t in _log))
            calls = c.calls(WTEST)
            yield 'one call of the array-level W-test', z3.BoolVal(len(calls) == 1)
            if calls:
                loc, out = calls[0][1], calls[0][2]
                x, m = loc['x'], loc['m']
                e = c.ctx.fresh_int('e!sk')
                ra, rb = _o['A'][1], _o['B'][1]
                yield 'sample has one entry per observed event', z3.BoolVal(isinstance(x, Arr) and x.ndim == 1) 
                if isinstance(x, Arr):
                    yield 'sample length', to_z3(x.shape[0]) == _n
                    yield 'sample entry e is ln rate_A(e) - ln rate_B(e)', z3.Implies(
                        z3.And(0 <= e, e < _n), to_real(x.f((e,))) == LOG(to_real(ra.f((e,)))) - LOG(to_real(rb.f((e,)))))
                yield 'null median is (N_A - N_B) / N', to_real(m) * z3.ToReal(_n) == _o['A'][3] - _o['B'][3]
                yield 'observed statistic is z, quantile is the two-sided p', z3.BoolVal(
                    r.fields.get('observed_statistic') is out['z_statistic'] and r.fields.get('quantile') is out['probability'])
            yield 'name / status / names', z3.BoolVal(r.fields.get('name') == 'W-Test' and r.fields.get('status') == 'normal'
                                                      and r.fields.get('sim_name') == ('fcA', 'fcB') and r.fields.get('obs_name') == 'cat')
    WT.__name__ = 'WTest_%s' % scale
    return WT


for _s in (False, True):
    _REG.add(paired_t_case(_s))
    _REG.add(w_case(_s))


# ------------------------------------------------------------------ seeded kernels usable modularly; public L-test
def _seeded_call_wrap(cls):
    oreq, oens = cls.requires.__func__, cls.ensures.__func__

    def requires(kls, c, forecast_data, observed_data, num_simulations=1000, random_numbers=None, seed=None,
                 use_observed_counts=True, verbose=True, normalize_likelihood=False, _n=None):
        if _n is None:
            _n = c.ctx.fresh_int('n_events_at_call')
            c.ctx.assume(z3.ToReal(_n) == rsum(lambda k: _flat(observed_data, k), _size(forecast_data)))
        return oreq(kls, c, forecast_data, observed_data, num_simulations, random_numbers, seed, use_observed_counts, verbose,
                    normalize_likelihood, _n) + [to_z3(num_simulations) >= 1]

    def ensures(kls, c, r, forecast_data, observed_data, num_simulations=1000, random_numbers=None, seed=None,
                use_observed_counts=True, verbose=True, normalize_likelihood=False, _n=None):
        if _n is None:
            _n = c.ctx.fresh_int('n_events_at_call')
            c.ctx.assume(z3.ToReal(_n) == rsum(lambda k: _flat(observed_data, k), _size(forecast_data)))
        for item in oens(kls, c, r, forecast_data, observed_data, num_simulations, random_numbers, seed, use_observed_counts,
                         verbose, normalize_likelihood, _n):
            if c.mode == 'assume' and item[0].startswith('hint:'):
                continue
            yield item
    cls.requires, cls.ensures = classmethod(requires), classmethod(ensures)


for _cls in _SEEDED:
    _seeded_call_wrap(_cls)


@contract
class PublicLTest:
    directed = directed_gridded('L')
    qualname = 'csep.core.poisson_evaluations.likelihood_test'
    case = 'abstract forecast / catalog, seeded'
    properties = ('C05', 'C06')

    def params(c):
        from pyvc.core import Lam
        fc, data, sc, mc, mags, n0, n1 = _abstract_forecast(c, 2)
        S = c.int('num_simulations')
        c.ctx.assume(S >= 1)
        obs2 = c.arr2_flat('obs_counts', 'float64', (n0, n1))
        cat = c.obj(None, spatial_magnitude_counts=Lam(lambda *a, **k: obs2), name='cat', region=c.obj(None, magnitudes=mags))
        return dict(gridded_forecast=fc, observed_catalog=cat, num_simulations=S, seed=c.int('seed'), random_numbers=None, verbose=False,
                    _v=dict(data=data, obs2=obs2))

    def requires(c, gridded_forecast, observed_catalog, num_simulations, seed, random_numbers, verbose, _v):
        F, O = _v['data'], _v['obs2']
        K = _size(F)
        i = z3.Int('i!rq')
        Ff, Of = F.flat_backing, O.flat_backing
        n = c.ctx.fresh_int('n_events')
        return [z3.ForAll([i], z3.Implies(z3.And(0 <= i, i < K), z3.And(Ff.f((i,)) >= 0, Of.f((i,)) >= 0)), patterns=[Ff.f((i,))]),
                z3.ForAll([i], z3.Implies(z3.And(0 <= i, i < K), Of.f((i,)) >= 0), patterns=[Of.f((i,))]),
                rsum(lambda k: _flat(F, k), K) > 0, n >= 0, rsum(lambda k: _flat(O, k), K) == z3.ToReal(n)]

    def ensures(c, r, gridded_forecast, observed_catalog, num_simulations, seed, random_numbers, verbose, _v):
        from pyvc.core import Obj
        F, O = _v['data'], _v['obs2']
        K = _size(F)
        tot = rsum(lambda k: _flat(F, k), K)
        logb = Arr((K,), lambda ix: LOG(to_real(_flat(F, ix[0]))), 'float64')
        yield 'returns an evaluation result', z3.BoolVal(isinstance(r, Obj))
        calls = c.calls(PLT)
        yield 'the statistic comes from the Poisson consistency test kernel (one call)', z3.BoolVal(len(calls) == 1)
        yield 'observed statistic == sum over bins of log Poisson pmf(count | rate) for the full space-magnitude rates', \
            to_real(r.fields.get('observed_statistic')) == jll_spec(lambda k: to_real(_flat(O, k)), logb, tot, K)
        if calls:
            qs, obs_ll, sims = calls[0][2]
            loc = calls[0][1]
            yield 'quantile and test distribution are those of the kernel', z3.BoolVal(
                r.fields.get('quantile') is qs and r.fields.get('test_distribution') is sims)
            yield 'the number of events of every simulation is a Poisson draw (not the observed count)', z3.BoolVal(
                loc.get('use_observed_counts') is False)
            yield 'seed passed through', z3.BoolVal(loc.get('seed') is seed)
        yield 'name / status', z3.BoolVal(r.fields.get('name') == 'Poisson L-Test' and r.fields.get('status') == 'normal')


@contract
class TTestAntisymmetry:
    """C08: swapping the two forecasts negates the information gain and the t statistic and mirrors the confidence interval; a
    forecast compared with itself has zero gain.  A lemma over the contract of _t_test_ndarray (two modular calls)."""
    qualname = 'lemma:C08:_t_test_ndarray is antisymmetric in the two forecasts'
    case = 'two modular calls with the forecasts swapped'
    properties = ('C08',)

    def lemma(c):
        from pyvc.contracts import pointwise_sum_hint
        n = c.int('n')
        c.ctx.assume(n >= 2)
        a, b = c.arr('rates1', 'float64', n=n), c.arr('rates2', 'float64', n=n)
        na, nb, alpha = c.real('n_f1'), c.real('n_f2'), c.real('alpha')
        c.ctx.assume(z3.And(alpha > 0, alpha < 1))
        r1 = c.call(TTEST, a, b, n, na, nb, alpha)
        r2 = c.call(TTEST, b, a, n, nb, na, alpha)
        i = z3.Int('i!lam')
        d = lambda t: LOG(to_real(a.f((t,)))) - LOG(to_real(b.f((t,))))
        dm = lambda t: LOG(to_real(b.f((t,)))) - LOG(to_real(a.f((t,))))
        S1, S1m = rsum(d, n), rsum(dm, n)
        S2, S2m = rsum(lambda t: d(t) * d(t), n), rsum(lambda t: dm(t) * dm(t), n)
        neg = SUM(z3.Lambda([i], -d(i)), n)
        c.ctx.fact(neg == -S1, lemma=True)                 # L4_sum_neg
        c.I.used_lemmas.add('L4.sum_neg')
        h = pointwise_sum_hint(c, 'swapped log-rate differences are the negated ones', S1m, lambda t: -d(t), n)
        if h:
            yield h
        h = pointwise_sum_hint(c, 'their squares are the same', S2m, lambda t: d(t) * d(t), n)
        if h:
            yield h
        ig1, ig2 = to_real(r1['information_gain']), to_real(r2['information_gain'])
        N = z3.ToReal(n)
        yield 'hint:gains scaled by N', z3.And(ig1 * N == S1 - (na - nb), ig2 * N == S1m - (nb - na))
        yield 'information gain is negated', ig2 == -ig1
        yield 'hint:the square of the summed differences is unchanged', S1m * S1m == S1 * S1
        yield 'hint:the summed squares are unchanged', S2m == S2
        # the t statistic is a quotient by s / sqrt(N): the clause is about samples with a non-zero standard deviation
        dens = c.ctx.ghost.get('ttest_denominators', [])
        for dd in dens:
            c.ctx.assume(dd != 0)
        yield 't statistic is negated', to_real(r2['t_statistic']) == -to_real(r1['t_statistic'])
        yield 'critical value unchanged', to_real(r2['t_critical']) == to_real(r1['t_critical'])
        yield 'confidence interval is mirrored', z3.And(to_real(r2['ig_lower']) == -to_real(r1['ig_upper']),
                                                        to_real(r2['ig_upper']) == -to_real(r1['ig_lower']))


@contract
class TTestSelf:
    qualname = 'lemma:C08:a forecast compared with itself has zero information gain'
    case = 'one modular call with the same rates and total twice'
    properties = ('C08',)

    def lemma(c):
        from pyvc.contracts import pointwise_sum_hint
        n = c.int('n')
        c.ctx.assume(n >= 2)
        a = c.arr('rates', 'float64', n=n)
        na, alpha = c.real('n_f'), c.real('alpha')
        c.ctx.assume(z3.And(alpha > 0, alpha < 1))
        r = c.call(TTEST, a, a, n, na, na, alpha)
        i = z3.Int('i!lam')
        S1 = rsum(lambda t: LOG(to_real(a.f((t,)))) - LOG(to_real(a.f((t,)))), n)
        zero = SUM(z3.Lambda([i], z3.RealVal(0)), n)
        c.ctx.fact(zero == 0, lemma=True)                  # L4_sum_const
        h = pointwise_sum_hint(c, 'every log-rate difference is zero', S1, lambda t: z3.RealVal(0), n)
        if h:
            yield h
        yield 'zero information gain', to_real(r['information_gain']) == 0


# ------------------------------------------------------------------ per-cell likelihood maps (C16 / C05)
def _cellmap_objects(c):
    from pyvc.core import Lam
    n = c.int('n_cells')
    c.ctx.assume(n >= 1)
    rates = c.arr('spatial_rates', 'float64', n=n)
    counts = c.arr('spatial_counts', 'float64', n=n)
    nf, no = c.real('forecast_total'), c.int('n_events')
    fc = c.obj(None, event_count=nf, spatial_counts=Lam(lambda *a, **k: rates), name='fc')
    cat = c.obj(None, event_count=no, spatial_counts=Lam(lambda *a, **k: counts), name='cat')
    return fc, cat, rates, counts, nf, no, n


@contract
class BinarySpatialLikelihood:
    qualname = 'csep.core.poisson_evaluations.binary_spatial_likelihood'
    case = 'abstract forecast / catalog records'
    properties = ('C16',)
    oracle = 'cell_maps'

    def witness(m, p):
        from pyvc.driver import model_value
        v = p['_v']
        return dict(kind='binary', rates=model_value(m, v['rates']), counts=model_value(m, v['counts']),
                    forecast_total=model_value(m, v['nf']), n_events=model_value(m, v['no']))

    def params(c):
        fc, cat, rates, counts, nf, no, n = _cellmap_objects(c)
        return dict(forecast=fc, catalog=cat, _v=dict(rates=rates, counts=counts, nf=nf, no=no, n=n))

    def requires(c, forecast, catalog, _v):
        i = z3.Int('i!rq')
        return [_v['nf'] > 0, _v['no'] >= 0,
                z3.ForAll([i], z3.Implies(z3.And(0 <= i, i < _v['n']), z3.And(_v['rates'].f((i,)) > 0, _v['counts'].f((i,)) >= 0)),
                          patterns=[_v['rates'].f((i,))])]

    def ensures(c, r, forecast, catalog, _v):
        rates, counts, nf, no, n = (_v[k] for k in ('rates', 'counts', 'nf', 'no', 'n'))
        yield 'one score per cell', z3.And(z3.BoolVal(isinstance(r, Arr) and r.ndim == 1), to_z3(r.shape[0]) == n)
        i = c.ctx.fresh_int('i!sk')
        lam = to_real(rates.f((i,))) * (z3.ToReal(no) / nf)
        active = to_real(counts.f((i,))) != 0
        yield 'cell score depends on the observation only through whether the cell is active: ln(1 - exp(-rate)) if active else -rate', \
            z3.Implies(z3.And(0 <= i, i < n), to_real(r.f((i,))) == z3.If(active, LOG(1 - EXP(-lam)), -lam))


@contract
class PoissonSpatialLikelihood:
    qualname = 'csep.core.poisson_evaluations.poisson_spatial_likelihood'
    case = 'abstract forecast / catalog records'
    properties = ('C16', 'C05')
    oracle = 'cell_maps'

    def witness(m, p):
        from pyvc.driver import model_value
        v = p['_v']
        return dict(kind='poisson', rates=model_value(m, v['rates']), counts=model_value(m, v['counts']),
                    forecast_total=model_value(m, v['nf']), n_events=model_value(m, v['no']))

    def params(c):
        fc, cat, rates, counts, nf, no, n = _cellmap_objects(c)
        return dict(forecast=fc, catalog=cat, _v=dict(rates=rates, counts=counts, nf=nf, no=no, n=n))

    def requires(c, forecast, catalog, _v):
        i = z3.Int('i!rq')
        return [_v['nf'] > 0, _v['no'] >= 0,
                z3.ForAll([i], z3.Implies(z3.And(0 <= i, i < _v['n']), z3.And(_v['rates'].f((i,)) > 0, _v['counts'].f((i,)) >= 0)),
                          patterns=[_v['rates'].f((i,))])]

    def ensures(c, r, forecast, catalog, _v):
        rates, counts, nf, no, n = (_v[k] for k in ('rates', 'counts', 'nf', 'no', 'n'))
        yield 'one score per cell', z3.And(z3.BoolVal(isinstance(r, Arr) and r.ndim == 1), to_z3(r.shape[0]) == n)
        i = c.ctx.fresh_int('i!sk')
        lam = to_real(rates.f((i,))) * (z3.ToReal(no) / nf)
        w = to_real(counts.f((i,)))
        yield 'cell score == log Poisson pmf(count | scaled rate) = -rate + count*ln(rate) - ln(count!)', \
            z3.Implies(z3.And(0 <= i, i < n), to_real(r.f((i,))) == -lam + w * LOG(lam) - LOGGAMMA(w + 1))


# ------------------------------------------------------------------ C08: binary (per active bin) T-test kernel
@contract
class MatrixBinaryTTest:
    """matrix_binary_t_test: the T-test formulas with N = number of ACTIVE space-magnitude bins (bins holding at least one observed
    event), not the number of events"""
    directed = staticmethod(lambda: _directed_pairs('binary_paired_t_test_public', False, alpha=0.05))
    qualname = 'csep.core.binomial_evaluations.matrix_binary_t_test'
    case = 'rates in the active bins, at least two active bins'
    properties = ('C08',)

    def params(c):
        from pyvc.core import Lam
        n = c.int('n_rates')
        n0, n1 = c.int('n_cells'), c.int('n_mag_bins')
        c.ctx.assume(z3.And(n >= 0, n0 >= 1, n1 >= 1))
        counts = c.arr2_flat('observed_counts', 'float64', (n0, n1))
        cat = c.obj(None, name='obs', spatial_magnitude_counts=Lam(lambda *a, **k: counts))
        return dict(target_event_rates1=c.arr('rates1', 'float64', n=n), target_event_rates2=c.arr('rates2', 'float64', n=n),
                    n_obs=c.int('n_obs'), n_f1=c.real('n_f1'), n_f2=c.real('n_f2'), catalog=cat, alpha=c.real('alpha'), _counts=counts)

    @staticmethod
    def active(_counts):
        t = z3.Int('i!cnt')
        return CNT(z3.Lambda([t], to_real(_flat(_counts, t)) != 0), _size(_counts))

    @staticmethod
    def counts_of(catalog, _counts):
        # at a call site the contract sees the catalog only: its gridded counts are what spatial_magnitude_counts() returns
        if _counts is not None:
            return _counts
        f = catalog.fields.get('spatial_magnitude_counts')
        return f.fn()

    def accepts(c, target_event_rates1, target_event_rates2, n_obs, n_f1, n_f2, catalog, alpha=0.05, _counts=None):
        from pyvc.core import Lam, Obj
        return isinstance(catalog, Obj) and isinstance(catalog.fields.get('spatial_magnitude_counts'), Lam)

    def requires(c, target_event_rates1, target_event_rates2, n_obs, n_f1, n_f2, catalog, alpha=0.05, _counts=None):
        _counts = MatrixBinaryTTest.counts_of(catalog, _counts)
        return [to_real(alpha) > 0, to_real(alpha) < 1, MatrixBinaryTTest.active(_counts) >= 2]

    def ensures(c, r, target_event_rates1, target_event_rates2, n_obs, n_f1, n_f2, catalog, alpha=0.05, _counts=None):
        _counts = MatrixBinaryTTest.counts_of(catalog, _counts)
        alpha = to_real(alpha)
        a, b = target_event_rates1, target_event_rates2
        n = a.n
        N = z3.ToReal(MatrixBinaryTTest.active(_counts))
        d = lambda i: LOG(to_real(a.f((i,)))) - LOG(to_real(b.f((i,))))
        S1 = rsum(d, n)
        S2 = rsum(lambda i: d(i) * d(i), n)
        yield 'is dict with the five entries', z3.BoolVal(isinstance(r, dict) and set(r) == {
            't_statistic', 't_critical', 'information_gain', 'ig_lower', 'ig_upper'})
        if not isinstance(r, dict):
            return
        ig = to_real(r['information_gain'])
        yield 'information gain per ACTIVE BIN: (sum of log-rate differences - (N1 - N2)) / number of active bins', ig * N == S1 - (n_f1 - n_f2)
        var = c.ctx.fresh_real('var')
        c.ctx.assume(var == S2 / (N - 1) - (S1 * S1) / (N * N - N))
        std = SQRT(var)
        sN = SQRT(N)
        yield 't statistic = IG / (s / sqrt N) with the variance of eq. 18 over the active bins', to_real(r['t_statistic']) == ig / (std / sN)
        tc = TPPF(1 - alpha / 2, N - 1)
        yield 't critical: Student t with N - 1 degrees of freedom', to_real(r['t_critical']) == tc
        yield 'interval', z3.And(to_real(r['ig_lower']) == ig - tc * std / sN, to_real(r['ig_upper']) == ig + tc * std / sN)

    def result(c, target_event_rates1, target_event_rates2, n_obs, n_f1, n_f2, catalog, alpha=0.05, _counts=None):
        return {k: c.ctx.fresh_real(k) for k in ('t_statistic', 't_critical', 'information_gain', 'ig_lower', 'ig_upper')}


def _binary_pair_objects(c):
    """two abstract gridded forecasts (stored rates, target_event_rates() recording how it was asked) and an abstract catalog with
    its gridded space-magnitude counts"""
    from pyvc.core import Lam
    n = c.int('n_events')
    n0, n1 = c.int('n_cells'), c.int('n_mag_bins')
    c.ctx.assume(z3.And(n >= 2, n0 >= 1, n1 >= 1))
    mags = c.arr('magnitudes', 'float64')
    c.ctx.assume(mags.n >= 1)
    counts = c.arr2_flat('observed_counts', 'float64', (n0, n1))
    cat = c.obj(None, event_count=n, name='cat', spatial_magnitude_counts=Lam(lambda *a, **k: counts))
    log = []
    out = {}
    for tag in ('A', 'B'):
        rates = c.arr('rates' + tag, 'float64', n=n)
        tot = c.real('total' + tag)
        data = c.arr2_flat('data' + tag, 'float64', (n0, n1))

        def ter(target_catalog, scale=False, tag=tag, rates=rates, tot=tot):
            log.append((tag, target_catalog, scale))
            return (rates, tot)
        out[tag] = (c.obj(None, target_event_rates=Lam(ter), name='fc' + tag, magnitudes=mags, data=data), data, tot)
    return out, cat, log, counts


def binary_paired_t_case(scale):
    class BPT:
        directed = staticmethod(lambda: _directed_pairs('binary_paired_t_test_public', scale, alpha=0.05))
        qualname = 'csep.core.binomial_evaluations.binary_paired_t_test'
        case = 'abstract forecasts / catalog, scale=%s' % scale
        properties = ('C08',)

        def params(c):
            o, cat, log, counts = _binary_pair_objects(c)
            return dict(forecast=o['A'][0], benchmark_forecast=o['B'][0], observed_catalog=cat, alpha=c.real('alpha'), scale=scale,
                        _o=o, _log=log, _counts=counts)

        def requires(c, forecast, benchmark_forecast, observed_catalog, alpha, scale, _o, _log, _counts):
            return [alpha > 0, alpha < 1, MatrixBinaryTTest.active(_counts) >= 2]

        def ensures(c, r, forecast, benchmark_forecast, observed_catalog, alpha, scale, _o, _log, _counts):
            from pyvc.core import Obj
            yield 'returns an evaluation result', z3.BoolVal(isinstance(r, Obj))
            yield 'each forecast is asked once for its totals, for the observed catalog and with the SAME scale flag', \
                z3.BoolVal(sorted(t[0] for t in _log) == ['A', 'B'] and all(t[1] is observed_catalog and t[2] is scale for t in _log))
            calls = c.calls(MatrixBinaryTTest.qualname)
            yield 'one call of the array-level binary T-test', z3.BoolVal(len(calls) == 1)
            if calls:
                loc, out = calls[0][1], calls[0][2]
                r1, r2 = loc['target_event_rates1'], loc['target_event_rates2']
                N = MatrixBinaryTTest.active(_counts)
                ok = isinstance(r1, Arr) and isinstance(r2, Arr) and r1.ndim == 1 and r2.ndim == 1
                yield 'the rates handed over are 1-d arrays', z3.BoolVal(ok)
                if ok:
                    yield 'one rate per active bin, for both forecasts', z3.And(to_z3(r1.shape[0]) == N, to_z3(r2.shape[0]) == N)
                    # the active bins in increasing order: the strictly increasing enumerations the two selections use coincide (L9)
                    sels = [g for g in (c.ctx.ghost.get('selections') or {}).values() if g['n'].eq(to_z3(_size(_counts)))]
                    j = c.ctx.fresh_int('j!sk')
                    if len(sels) >= 2:
                        sa, sb = sels[0], sels[1]
                        from contracts.fcfile import _same_enumeration_hints
                        yield from _same_enumeration_hints(c, None, {'U': sa['m'], 'FO': sa['sel']}, sb['sel'], sb['m'], 'active bins',
                                                           lambda t: sb['inv'](sa['sel'](t)), lambda t: sa['inv'](sb['sel'](t)))
                        c.I.used_lemmas.add('L9.enum_unique')
                        s_j = sa['sel'](j)
                        inj = z3.And(0 <= j, j < N)
                        yield 'entry j of both arrays is the stored rate of the j-th active bin (same bin for forecast and benchmark)', z3.Implies(
                            inj, z3.And(0 <= s_j, s_j < _size(_counts), to_real(_flat(_counts, s_j)) != 0,
                                        to_real(r1.f((j,))) == to_real(_flat(_o['A'][1], s_j)), to_real(r2.f((j,))) == to_real(_flat(_o['B'][1], s_j))))
                yield 'forecast first, benchmark second (sign of the information gain)', z3.BoolVal(loc['n_f1'] is _o['A'][2] and loc['n_f2'] is _o['B'][2])
                yield 'the catalog handed over is the observed catalog', z3.BoolVal(loc['catalog'] is observed_catalog)
                yield 'significance level passed through', to_real(loc['alpha']) == alpha
                yield 'observed statistic is the information gain', z3.BoolVal(r.fields.get('observed_statistic') is out['information_gain'])
                td, q = r.fields.get('test_distribution'), r.fields.get('quantile')
                yield 'test distribution is the confidence interval (lower, upper)', z3.BoolVal(
                    isinstance(td, tuple) and len(td) == 2 and td[0] is out['ig_lower'] and td[1] is out['ig_upper'])
                yield 'quantile is (t statistic, t critical)', z3.BoolVal(
                    isinstance(q, tuple) and len(q) == 2 and q[0] is out['t_statistic'] and q[1] is out['t_critical'])
            yield 'name / status / names', z3.BoolVal(r.fields.get('status') == 'normal' and r.fields.get('sim_name') == ('fcA', 'fcB')
                                                      and r.fields.get('obs_name') == 'cat')
    BPT.__name__ = 'BinaryPairedT_%s' % scale
    return BPT


for _s in (False, True):
    _REG.add(binary_paired_t_case(_s))
