"""Contracts for csep/core/regions.py: CartesianGrid2D lookups against the representation
invariant RI (DESIGN 4, 5/C01) - model R."""
import z3

from pyvc.contracts import contract
from pyvc.core import Arr, rv, to_real, to_z3
from contracts.calc import grid, TOL, zabs, Bin1d_f64

BIN1D = 'csep.utils.calc.bin1d_vec'
TOLR = rv(TOL['float64'])


class Lattice:
    """ghost view of a Cartesian region: N cells with distinct integer coordinates on the
    lattice (X0 + c*dh, Y0 + r*dh), 0 <= c < nx, 0 <= r < ny, flag active(i)"""

    def __init__(self, c):
        self.N, self.nx, self.ny = z3.Int('N'), z3.Int('nx'), z3.Int('ny')
        self.X0, self.Y0, self.dh = z3.Real('X0'), z3.Real('Y0'), z3.Real('dh')
        self.cx = z3.Function('cx', z3.IntSort(), z3.IntSort())
        self.cy = z3.Function('cy', z3.IntSort(), z3.IntSort())
        self.active = z3.Function('active', z3.IntSort(), z3.BoolSort())
        self.cellat = z3.Function('cellat', z3.IntSort(), z3.IntSort(), z3.IntSort())
        self.xs = grid(c, 'xs')
        self.ys = grid(c, 'ys')
        self.xs.grid = (self.X0, self.dh, self.nx)
        self.ys.grid = (self.Y0, self.dh, self.ny)
        X0, Y0, dh, nx, ny = self.X0, self.Y0, self.dh, self.nx, self.ny
        self.xs.f = lambda ix: X0 + z3.ToReal(to_z3(ix[0])) * dh
        self.ys.f = lambda ix: Y0 + z3.ToReal(to_z3(ix[0])) * dh
        self.xs.shape, self.ys.shape = (nx,), (ny,)
        self.bbox_mask = c.arr2('bbox_mask', 'float64', (ny, nx))
        self.idx_map = c.arr2('idx_map', 'float64', (ny, nx))

    def RI(self):
        N, nx, ny, cx, cy, act, cellat = self.N, self.nx, self.ny, self.cx, self.cy, self.active, self.cellat
        i, j, r, cc = z3.Ints('i!ri j!ri r!ri c!ri')
        M, I = self.bbox_mask.fun, self.idx_map.fun
        return [
            # at least two columns and two rows: for a single row/column bin1d_vec switches to its
            # single-edge rule (open-ended, h := 1) - finding D16, outside this contract
            N >= 1, nx >= 2, ny >= 2,
            z3.ForAll([i], z3.Implies(z3.And(0 <= i, i < N),
                                      z3.And(0 <= cx(i), cx(i) < nx, 0 <= cy(i), cy(i) < ny,
                                             I(cy(i), cx(i)) == z3.ToReal(i),
                                             M(cy(i), cx(i)) == z3.If(act(i), z3.RealVal(0), z3.RealVal(1)),
                                             cellat(cy(i), cx(i)) == i)),
                      patterns=[cx(i), cy(i), act(i)]),
            # a lattice point that is unmasked is the image of an active cell
            z3.ForAll([r, cc], z3.Implies(z3.And(0 <= r, r < ny, 0 <= cc, cc < nx),
                                          z3.And(z3.Or(M(r, cc) == 0, M(r, cc) == 1),
                                                 z3.Implies(M(r, cc) == 0,
                                                            z3.And(0 <= cellat(r, cc), cellat(r, cc) < N,
                                                                   cx(cellat(r, cc)) == cc, cy(cellat(r, cc)) == r,
                                                                   act(cellat(r, cc)))))),
                      patterns=[M(r, cc)]),
        ]

    def obj(self, c, **extra):
        from pyvc.core import Opaque
        N = self.N
        polys = Opaque('polygons', len=lambda I: N)
        o = c.obj('csep.core.regions.CartesianGrid2D', xs=self.xs, ys=self.ys, bbox_mask=self.bbox_mask,
                  idx_map=self.idx_map, dh=self.dh, polygons=polys, **extra)
        o.lattice = self
        return o

    def grid_requires(self, c, pts):
        out = []
        for g in (self.xs, self.ys):
            out += Bin1d_f64.requires(c, pts, g, None, False)
            out.append(to_real(g.grid[1]) > 0)
        return out

    # half-open membership of point (lon, lat) in cell i, with the granted tolerance below the upper edges
    def inside(self, i, lon, lat):
        X0, Y0, dh, cx, cy = self.X0, self.Y0, self.dh, self.cx, self.cy
        tx = TOLR * (zabs(lon) + (z3.ToReal(cx(i)) + 2) * zabs(X0))
        ty = TOLR * (zabs(lat) + (z3.ToReal(cy(i)) + 2) * zabs(Y0))
        return z3.And(lon >= X0 + z3.ToReal(cx(i)) * dh, lon < X0 + (z3.ToReal(cx(i)) + 1) * dh - tx,
                      lat >= Y0 + z3.ToReal(cy(i)) * dh, lat < Y0 + (z3.ToReal(cy(i)) + 1) * dh - ty)

    def near(self, i, lon, lat):
        """point is in cell i up to the tolerance zone below its lower edges (converse direction)"""
        X0, Y0, dh, cx, cy = self.X0, self.Y0, self.dh, self.cx, self.cy
        tx = TOLR * (zabs(lon) + (z3.ToReal(cx(i)) + 1) * zabs(X0))
        ty = TOLR * (zabs(lat) + (z3.ToReal(cy(i)) + 1) * zabs(Y0))
        return z3.And(lon >= X0 + z3.ToReal(cx(i)) * dh - tx, lon < X0 + (z3.ToReal(cx(i)) + 1) * dh,
                      lat >= Y0 + z3.ToReal(cy(i)) * dh - ty, lat < Y0 + (z3.ToReal(cy(i)) + 1) * dh)


def _instantiate_bin1d(c, e, kx, ky):
    """assume the bin1d_vec postconditions of the two internal calls at element e and edges kx, ky"""
    calls = c.calls(BIN1D)
    if len(calls) < 2:
        return None
    (_, lx, rx), (_, ly, ry) = calls[0], calls[1]
    for g in rx.ghost['bin1d'](e, kx):
        c.ctx.assume(g)
    for g in ry.ghost['bin1d'](e, ky):
        c.ctx.assume(g)
    return rx, ry


def directed_lattices(oracle_name, **kw):
    """concrete lattices (conventions of rt/oracles_grid.py): a full block, an L-shape with a hole, flagged-out cells, shuffled
    cell order; probed at every cell edge +- a few ulps, in the holes and beyond the bounding box"""
    def fam():
        out = []
        shapes = {'full': [[x, y] for x in range(3) for y in range(2)],
                  'hole': [[0, 0], [1, 0], [2, 0], [0, 1], [2, 1], [0, 2], [1, 2], [2, 2]],
                  'ell': [[0, 0], [1, 0], [0, 1], [0, 2]]}
        for a, h in (([0.0, 0.0], 0.1), ([-125.4, 31.5], 0.1), ([12.345, -45.678], 0.25)):
            for nm, cells in shapes.items():
                for variant in range(3):
                    cs = [list(c) for c in cells]
                    lat = {'anchor': a, 'dh': h, 'cells': cs if variant != 1 else cs[::-1]}
                    if variant == 2:
                        lat['mask'] = [0 if k % 3 == 1 else 1 for k in range(len(cs))]
                    else:
                        lat['ctor'] = ['polygons', 'from_origins'][variant]
                    args = {'lattice': lat, 'probe': {'ulps': [1, 2], 'holes': True, 'beyond': True}}
                    args.update(kw)
                    out.append((oracle_name, args))
        return out
    return staticmethod(fam)


@contract
class GetIndexOf:
    directed = directed_lattices('grid_lookup', each=120)
    qualname = 'csep.core.regions.CartesianGrid2D.get_index_of'
    case = 'arrays of points, region satisfying RI'
    oracle = 'region_get_index_of'
    properties = ('C01', 'C03', 'C20')

    def params(c):
        L = Lattice(c)
        n = c.int('n')
        c.ctx.assume(n >= 0)
        return dict(self=L.obj(c), lons=c.arr('lons', 'float64', n=n), lats=c.arr('lats', 'float64', n=n), _L=L)

    def requires(c, self, lons, lats, _L=None):
        L = _L if _L is not None else self.lattice
        return L.RI() + L.grid_requires(c, lons)

    def ensures(c, r, self, lons, lats, _L=None):
        L = _L if _L is not None else self.lattice
        if c.mode == 'assume':
            # modular use: every reported index is an active cell of the region
            q = c.ctx.fresh_int('e!q')
            rq = to_z3(r.f((q,)))
            yield 'idx', z3.ForAll([q], z3.Implies(z3.And(0 <= q, q < to_z3(lons.shape[0])),
                                                   z3.And(0 <= rq, rq < L.N, L.active(rq))), patterns=[rq])
            # ... and a point inside the half-open cell of an active cell i gets exactly i (clause (A), proved below)
            i_ = z3.Int('i!q')
            lonq, latq = to_real(lons.f((q,))), to_real(lats.f((q,)))
            yield 'inside', z3.ForAll([q, i_], z3.Implies(
                z3.And(0 <= q, q < to_z3(lons.shape[0]), 0 <= i_, i_ < L.N, L.active(i_), L.inside(i_, lonq, latq)), rq == i_),
                patterns=[z3.MultiPattern(rq, L.cx(i_))])
            return
        e, i = c.ctx.fresh_int('e!sk'), c.ctx.fresh_int('i!sk')
        ine = z3.And(0 <= e, e < lons.n)
        lon, lat = to_real(lons.f((e,))), to_real(lats.f((e,)))
        yield 'one index per point', to_z3(r.shape[0]) == to_z3(lons.n)
        # (A) a point inside the half-open cell i of an active cell is attributed to i
        ok = _instantiate_bin1d(c, e, L.cx(i), L.cy(i))
        yield 'bin1d contracts available', z3.BoolVal(ok is not None)
        ini = z3.And(0 <= i, i < L.N)
        yield 'point in active cell i -> index i', z3.Implies(z3.And(ine, ini, L.active(i), L.inside(i, lon, lat)),
                                                             to_z3(r.f((e,))) == i)
        # (B) converse: the reported cell is active and contains the point (up to the tolerance zone)
        ri = to_z3(r.f((e,)))
        _instantiate_bin1d(c, e, L.cx(ri), L.cy(ri))
        _instantiate_bin1d(c, e, L.cx(ri) + 1, L.cy(ri) + 1)
        _instantiate_bin1d(c, e, L.cx(ri) - 1, L.cy(ri) - 1)
        calls = c.calls(BIN1D)
        if len(calls) >= 2:
            col, row = to_z3(calls[0][2].f((e,))), to_z3(calls[1][2].f((e,)))
            M, I = L.bbox_mask.fun, L.idx_map.fun
            yield 'hint:col,row in range', z3.Implies(ine, z3.And(0 <= col, col < L.nx, 0 <= row, row < L.ny))
            yield 'hint:lattice point unmasked', z3.Implies(ine, M(row, col) == 0)
            yield 'hint:index is the cell at (row,col)', z3.Implies(ine, ri == L.cellat(row, col))
            yield 'hint:cell coordinates', z3.Implies(ine, z3.And(L.cx(ri) == col, L.cy(ri) == row))
        yield 'reported index is a cell', z3.Implies(ine, z3.And(0 <= ri, ri < L.N))
        yield 'reported cell is active', z3.Implies(ine, L.active(ri))
        nr = L.near(ri, lon, lat)
        for nm, part in zip(('west edge (with tolerance zone)', 'east edge', 'south edge (with tolerance zone)', 'north edge'),
                            nr.children()):
            yield 'reported cell contains the point: ' + nm, z3.Implies(ine, part)

    def raises(c, exc, self, lons, lats, _L=None):
        if exc.name != 'ValueError':
            return None
        L = _L if _L is not None else self.lattice
        ws = c.ctx.ghost.get('witnesses') or []
        if not ws:
            return [('raise has a witness point', z3.BoolVal(False))]
        e0 = ws[-1][0]
        # the point that triggered the error is (strictly) inside no active cell
        i0 = c.ctx.fresh_int('i0!sk')
        lon, lat = to_real(lons.f((e0,))), to_real(lats.f((e0,)))
        _instantiate_bin1d(c, e0, L.cx(i0), L.cy(i0))
        return [('ValueError only if the offending point is inside no active cell',
                 z3.Not(z3.And(0 <= i0, i0 < L.N, L.active(i0), L.inside(i0, lon, lat))))]

    def may_raise(c, self, lons, lats, _L=None):
        from pyvc.core import builtin_exc
        return builtin_exc('ValueError'), None

    def result(c, self, lons, lats, _L=None):
        r = c.L.fresh_arr('cellidx', (lons.shape[0],), 'int64')
        r.ghost['cellidx'] = dict(region=self, lons=lons, lats=lats)
        return r




@contract
class GetMasked:
    directed = directed_lattices('grid_lookup', each=60)
    qualname = 'csep.core.regions.CartesianGrid2D.get_masked'
    case = 'arrays of points, region satisfying RI'
    oracle = 'region_get_masked'
    properties = ('C01', 'C04')

    def params(c):
        L = Lattice(c)
        n = c.int('n')
        c.ctx.assume(n >= 0)
        return dict(self=L.obj(c), lons=c.arr('lons', 'float64', n=n), lats=c.arr('lats', 'float64', n=n), _L=L)

    def requires(c, self, lons, lats, _L=None):
        L = _L if _L is not None else self.lattice
        return L.RI() + L.grid_requires(c, lons)

    def ensures(c, r, self, lons, lats, _L=None):
        L = _L if _L is not None else self.lattice
        if c.mode == 'assume':
            return
        e, i = c.ctx.fresh_int('e!sk'), c.ctx.fresh_int('i!sk')
        ine = z3.And(0 <= e, e < lons.n)
        lon, lat = to_real(lons.f((e,))), to_real(lats.f((e,)))
        yield 'bool array, one flag per point', z3.BoolVal(isinstance(r, Arr) and r.dtype == 'bool')
        yield 'length', to_z3(r.shape[0]) == to_z3(lons.n)
        ok = _instantiate_bin1d(c, e, L.cx(i), L.cy(i))
        yield 'bin1d contracts available', z3.BoolVal(ok is not None)
        ini = z3.And(0 <= i, i < L.N)
        me = to_z3(r.f((e,)))
        yield 'point in active cell i -> not masked', z3.Implies(z3.And(ine, ini, L.active(i), L.inside(i, lon, lat)), z3.Not(me))
        calls = c.calls(BIN1D)
        if len(calls) >= 2:
            col, row = to_z3(calls[0][2].f((e,))), to_z3(calls[1][2].f((e,)))
            M = L.bbox_mask.fun
            ri = L.cellat(row, col)
            _instantiate_bin1d(c, e, col, row)
            _instantiate_bin1d(c, e, col + 1, row + 1)
            _instantiate_bin1d(c, e, col - 1, row - 1)
            yield 'hint:unmasked -> col,row in range', z3.Implies(z3.And(ine, z3.Not(me)),
                                                                  z3.And(0 <= col, col < L.nx, 0 <= row, row < L.ny))
            yield 'hint:unmasked -> lattice point unmasked', z3.Implies(z3.And(ine, z3.Not(me)), M(row, col) == 0)
            yield 'hint:unmasked -> cell coordinates', z3.Implies(z3.And(ine, z3.Not(me)),
                                                                  z3.And(0 <= ri, ri < L.N, L.active(ri), L.cx(ri) == col, L.cy(ri) == row))
            nr = L.near(ri, lon, lat)
            for nm, part in zip(('west edge (with tolerance zone)', 'east edge', 'south edge (with tolerance zone)', 'north edge'),
                                nr.children()):
                yield 'not masked -> an active cell contains the point: ' + nm, z3.Implies(z3.And(ine, z3.Not(me)), part)

    def result(c, self, lons, lats, _L=None):
        return c.L.fresh_arr('masked', (lons.shape[0],), 'bool')


# ---------------------------------------------------------------------------------------------------
# C18: a Cartesian region rebuilt from its dictionary form is rebuilt from the same cell origins, in the same order, with
# the same spacing (the constructor is a function of exactly these: same arguments, same region, same cell numbering)
# ---------------------------------------------------------------------------------------------------
@contract
class RegionDictRoundTrip:
    # concrete lattices (conventions of rt/oracles_io.cartesian_region_dict_roundtrip): cells listed in an order that is not the
    # sorted one, a single cell, a row
    directed = staticmethod(lambda: [('cartesian_region_dict_roundtrip', dict(lattice=lat, probe_seed=1, n_probes=60, through_json=tj))
                                     for tj in (False, True) for lat in (
                                         {'lon0': '-0.5', 'lat0': '-0.5', 'dh': '0.5', 'cells': [[2, 2], [0, 0], [1, 0], [1, 1], [2, 1]]},
                                         {'lon0': '0', 'lat0': '0', 'dh': '1', 'cells': [[0, 0]]},
                                         {'lon0': '-125.4', 'lat0': '40.1', 'dh': '0.1', 'cells': [[5 - i, 0] for i in range(6)]})])
    qualname = 'lemma:C18:CartesianGrid2D.from_dict(to_dict(region)) rebuilds from the same origins in the same order'
    case = 'region with any number of cells; from_origins observed through a recording stub'
    properties = ('C18',)

    def lemma(c):
        from pyvc.core import Lam, SymList, Obj
        CG = 'csep.core.regions.CartesianGrid2D'
        N = c.int('n_cells')
        c.ctx.assume(N >= 1)
        LON = z3.Function('origin_lon', z3.IntSort(), z3.RealSort())
        LAT = z3.Function('origin_lat', z3.IntSort(), z3.RealSort())
        polys = SymList(N, lambda k: c.obj(None, origin=(LON(to_z3(k)), LAT(to_z3(k)))), 'polygons')
        dh = c.real('dh')
        region = c.obj(CG, name='region', dh=dh, polygons=polys)
        d = c.inline(CG + '.to_dict', region)
        yield 'dictionary form has the cell origins, the spacing and the class id', z3.BoolVal(
            isinstance(d, dict) and set(d) >= {'polygons', 'dh', 'class_id', 'name'})
        seen = {}

        def from_origins(origins, dh=None, magnitudes=None, name=None):
            seen.update(origins=origins, dh=dh, magnitudes=magnitudes, name=name)
            return 'rebuilt'
        stub = c.obj(None, from_origins=Lam(from_origins))
        r = c.inline(CG + '.from_dict', stub, d)
        o = seen.get('origins')
        yield 'the region is rebuilt by from_origins', z3.BoolVal(r == 'rebuilt' and isinstance(o, Arr) and o.ndim == 2)
        if isinstance(o, Arr) and o.ndim == 2:
            k = c.ctx.fresh_int('k!sk')
            yield 'one origin per cell', z3.And(to_z3(o.shape[0]) == N, to_z3(o.shape[1]) == 2)
            yield 'cell k is rebuilt from the origin of cell k (same order, same coordinates)', z3.Implies(
                z3.And(0 <= k, k < N), z3.And(to_real(o.f((k, 0))) == LON(k), to_real(o.f((k, 1))) == LAT(k)))
        yield 'same spacing', to_real(seen.get('dh')) == dh if seen.get('dh') is not None else z3.BoolVal(False)


# ---------------------------------------------------------------------------------------------------
# C01: the constructor ESTABLISHES the representation invariant RI: CartesianGrid2D._build_bitmask_vec on any set of
# distinct cells of a lattice (any order, holes, per-cell mask flags)
# ---------------------------------------------------------------------------------------------------
from pyvc.contracts import LoopInv, REG
from pyvc.core import SymList, simp

BUILD = 'csep.core.regions.CartesianGrid2D._build_bitmask_vec'
CLEANER = 'csep.utils.calc.cleaner_range'


@contract
class CleanerRangeAssumed:
    """cleaner_range(start, end, h) for a start and an end that are m-1 steps apart: the m edges start + k*h.
    ASSUMED here (its decimal-string scaling logic is outside the engine; its exactness on decimal grids is the bounded
    part of C02): used only modularly, by the constructor contract below."""
    qualname = CLEANER
    case = 'assumed: edges start + k*h, k = 0 .. m-1, for end == start + (m-1)*h'
    properties = ('C01', 'C02')
    assumed = True

    def params(c):
        return None

    def accepts(c, start, end, h):
        return c.ctx.ghost.get('lattice_axes') is not None

    def requires(c, start, end, h):
        return []

    def ensures(c, r, start, end, h):
        return []

    def result(c, start, end, h):
        # the constructor calls it for the columns first, then for the rows
        k = c.ctx.ghost.get('cleaner_calls', 0)
        c.ctx.ghost['cleaner_calls'] = k + 1
        axes = c.ctx.ghost['lattice_axes']
        if k >= len(axes):
            from pyvc.core import Unsupported
            raise Unsupported('cleaner_range call that is not one of the lattice axes')
        a0, dh, n = axes[k]
        c.ctx.oblige('call:cleaner_range: start is the first lattice edge, end == start + (n-1)*h, h the spacing', z3.And(
            to_real(start) == a0, to_real(end) == a0 + z3.ToReal(n - 1) * dh, to_real(h) == dh), kind='callpre')
        g = Arr((n,), lambda ix, a0=a0, dh=dh: a0 + z3.ToReal(to_z3(ix[0])) * dh, 'float64', label='edges')
        g.grid = (a0, dh, n)
        return g


class BuildLoop(LoopInv):
    """for i in range(len(self.polygons)): a[idy[i], idx[i], 1] = i; a[idy[i], idx[i], 0] = 0 unless the cell is flagged out.
    After i cells: every earlier cell j has its number at its lattice position and mask 0/1 by its flag; every lattice position
    not (yet) taken has mask 1."""

    def havoc(self, I, fr, i, it):
        a = fr.locals['a']
        self.A = I.ctx.fresh_fun('mask_and_index', z3.IntSort(), z3.IntSort(), z3.IntSort(), z3.RealSort())
        A = self.A
        a.f = lambda ix: A(to_z3(ix[0]), to_z3(ix[1]), to_z3(ix[2]))

    def inv(self, I, fr, i, it):
        a = fr.locals['a']
        g = I.ctx.ghost['lattice']
        cx, cy, nx, ny, active = g['cx'], g['cy'], g['nx'], g['ny'], g['active']
        i = to_z3(i)
        M = lambda r, c_: to_real(a.f((r, c_, 0)))
        IX = lambda r, c_: to_real(a.f((r, c_, 1)))
        if self.mode == 'prove':
            j, r, c_ = I.ctx.fresh_int('j!sk'), I.ctx.fresh_int('r!sk'), I.ctx.fresh_int('c!sk')
            self.sk = (j, r, c_)
            if simp(i == 0) is not True and 'idx' in fr.locals and 'idy' in fr.locals:
                cur = simp(i - 1)
                ix_, iy_ = fr.locals['idx'], fr.locals['idy']
                yield 'hint:the cell just placed was binned to its own column and row', z3.Implies(
                    cur >= 0, z3.And(to_z3(ix_.f((cur,))) == cx(cur), to_z3(iy_.f((cur,))) == cy(cur)))
                yield 'hint:earlier cells sit elsewhere (cells are distinct)', z3.Implies(
                    z3.And(0 <= j, j < cur), z3.Or(cx(j) != cx(cur), cy(j) != cy(cur)))
            yield 'placed cells carry their number', z3.Implies(z3.And(0 <= j, j < i), IX(cy(j), cx(j)) == z3.ToReal(j))
            yield 'placed cells are unmasked iff their flag says so', z3.Implies(
                z3.And(0 <= j, j < i), M(cy(j), cx(j)) == z3.If(active(j), z3.RealVal(0), z3.RealVal(1)))
            t = z3.Int('t!free')
            free = z3.ForAll([t], z3.Implies(z3.And(0 <= t, t < i), z3.Or(cy(t) != r, cx(t) != c_)))
            yield 'lattice positions not taken by a placed cell are masked', z3.Implies(
                z3.And(0 <= r, r < ny, 0 <= c_, c_ < nx, free), M(r, c_) == 1)
        else:
            j, r, c_, t = z3.Ints('j!inv r!inv c!inv t!inv')
            yield 'placed', z3.ForAll([j], z3.Implies(z3.And(0 <= j, j < i), z3.And(
                IX(cy(j), cx(j)) == z3.ToReal(j), M(cy(j), cx(j)) == z3.If(active(j), z3.RealVal(0), z3.RealVal(1)))),
                patterns=[cx(j), cy(j)])
            free = z3.ForAll([t], z3.Implies(z3.And(0 <= t, t < i), z3.Or(cy(t) != r, cx(t) != c_)))
            yield 'free', z3.ForAll([r, c_], z3.Implies(z3.And(0 <= r, r < ny, 0 <= c_, c_ < nx, free), M(r, c_) == 1),
                                    patterns=[self.A(r, c_, 0)])

    def step_lemmas(self, I, fr, i, it):
        # the callee contract of bin1d_vec at the cell being placed: its midpoint is binned to the cell's own column / row
        g = I.ctx.ghost['lattice']
        calls = [x for x in I.ctx.ghost.get('calls', []) if x[0] == BIN1D]
        if len(calls) >= 2:
            rx, ry = calls[0][3], calls[1][3]
            for f in rx.ghost['bin1d'](to_z3(i), g['cx'](to_z3(i))):
                yield f
            for f in ry.ghost['bin1d'](to_z3(i), g['cy'](to_z3(i))):
                yield f


def build_case(with_mask):
    loop = BuildLoop()

    class B:
        qualname = BUILD
        case = 'distinct cells of a lattice, any order, holes allowed, %s' % ('per-cell mask flags' if with_mask else 'no mask flags')
        properties = ('C01',)
        loops = {0: loop}

        def params(c):
            N, nx, ny = c.int('N'), c.int('nx'), c.int('ny')
            X0, Y0, dh = c.real('X0'), c.real('Y0'), c.real('dh')
            cx = z3.Function('cx', z3.IntSort(), z3.IntSort())
            cy = z3.Function('cy', z3.IntSort(), z3.IntSort())
            flag = c.arr('poly_mask', 'int64', n=N) if with_mask else None
            active = (lambda k: to_z3(flag.f((k,))) == 1) if with_mask else (lambda k: z3.BoolVal(True))
            lon = lambda k: X0 + z3.ToReal(cx(to_z3(k))) * dh
            lat = lambda k: Y0 + z3.ToReal(cy(to_z3(k))) * dh

            def poly(k):
                x, y = lon(k), lat(k)
                return c.obj('csep.models.Polygon', origin=(x, y), points=[(x, y), (x, y + dh), (x + dh, y + dh), (x + dh, y)])
            polys = SymList(N, poly, 'polygons')
            c.ctx.ghost['lattice'] = dict(cx=cx, cy=cy, nx=nx, ny=ny, active=active, X0=X0, Y0=Y0, dh=dh, N=N)
            c.ctx.ghost['lattice_axes'] = [(X0, dh, nx), (Y0, dh, ny)]
            me = c.obj('csep.core.regions.CartesianGrid2D', polygons=polys, poly_mask=flag, dh=dh, name='region')
            return dict(self=me, _g=c.ctx.ghost['lattice'], _w=[c.int('w%d' % k) for k in range(4)])

        def requires(c, self, _g, _w):
            cx, cy, nx, ny, N, X0, Y0, dh = (_g[k] for k in ('cx', 'cy', 'nx', 'ny', 'N', 'X0', 'Y0', 'dh'))
            j, k = z3.Ints('j!rq k!rq')
            eps = rv(TOL['float64'])
            mid = lambda a0, cc: a0 + z3.ToReal(cc) * dh + dh / 2
            out = [N >= 1, nx >= 2, ny >= 2, dh > 0,
                   z3.ForAll([j], z3.Implies(z3.And(0 <= j, j < N), z3.And(0 <= cx(j), cx(j) < nx, 0 <= cy(j), cy(j) < ny)),
                             patterns=[cx(j)]),
                   # distinct cells
                   z3.ForAll([j, k], z3.Implies(z3.And(0 <= j, j < k, k < N), z3.Or(cx(j) != cx(k), cy(j) != cy(k))),
                             patterns=[z3.MultiPattern(cx(j), cx(k))]),
                   # the bounding box is tight: some cell in the first / last column and row
                   0 <= _w[0], _w[0] < N, cx(_w[0]) == 0, 0 <= _w[1], _w[1] < N, cx(_w[1]) == nx - 1,
                   0 <= _w[2], _w[2] < N, cy(_w[2]) == 0, 0 <= _w[3], _w[3] < N, cy(_w[3]) == ny - 1,
                   # the spacing is not lost in the round-off of the coordinates (half a cell exceeds the binning tolerance)
                   z3.ForAll([j], z3.Implies(z3.And(0 <= j, j < N), z3.And(
                       dh / 2 > eps * (zabs(mid(X0, cx(j))) + z3.ToReal(cx(j) + 2) * zabs(X0)),
                       dh / 2 > eps * (zabs(mid(Y0, cy(j))) + z3.ToReal(cy(j) + 2) * zabs(Y0)))), patterns=[cy(j)])]
            for a0 in (X0, Y0):
                gr = Arr((nx,), lambda ix: a0, 'float64')
                gr.grid = (a0, dh, nx)
                out += Bin1d_f64.requires(c, Arr((N,), lambda ix: 0.0, 'float64'), gr, None, False)
            return out

        def ensures(c, r, self, _g, _w):
            cx, cy, nx, ny, N, X0, Y0, dh, active = (_g[k] for k in ('cx', 'cy', 'nx', 'ny', 'N', 'X0', 'Y0', 'dh', 'active'))
            yield 'returns (mask-and-index array, column edges, row edges)', z3.BoolVal(
                isinstance(r, tuple) and len(r) == 3 and isinstance(r[0], Arr) and r[0].ndim == 3)
            a, xs, ys = r
            yield 'array shape == (rows, columns, 2)', z3.And(to_z3(a.shape[0]) == ny, to_z3(a.shape[1]) == nx, to_z3(a.shape[2]) == 2)
            kk = c.ctx.fresh_int('k!sk')
            yield 'column edges are the lattice columns', z3.And(to_z3(xs.shape[0]) == nx, z3.Implies(
                z3.And(0 <= kk, kk < nx), to_real(xs.f((kk,))) == X0 + z3.ToReal(kk) * dh))
            yield 'row edges are the lattice rows', z3.And(to_z3(ys.shape[0]) == ny, z3.Implies(
                z3.And(0 <= kk, kk < ny), to_real(ys.f((kk,))) == Y0 + z3.ToReal(kk) * dh))
            M = lambda rr, cc: to_real(a.f((rr, cc, 0)))
            IX = lambda rr, cc: to_real(a.f((rr, cc, 1)))
            j, rr, cc, t = c.ctx.fresh_int('j!sk'), c.ctx.fresh_int('r!sk'), c.ctx.fresh_int('c!sk'), z3.Int('t!ex')
            yield 'RI: cell j is found at its lattice position, unmasked iff its flag says so', z3.Implies(
                z3.And(0 <= j, j < N), z3.And(IX(cy(j), cx(j)) == z3.ToReal(j), M(cy(j), cx(j)) == z3.If(active(j), z3.RealVal(0), z3.RealVal(1))))
            inb = z3.And(0 <= rr, rr < ny, 0 <= cc, cc < nx)
            yield 'RI: the mask is 0 or 1 everywhere', z3.Implies(inb, z3.Or(M(rr, cc) == 0, M(rr, cc) == 1))
            yield 'RI: an unmasked lattice position is the position of an active cell (holes and flagged-out cells are masked)', z3.Implies(
                z3.And(inb, M(rr, cc) == 0), z3.Exists([t], z3.And(0 <= t, t < N, cx(t) == cc, cy(t) == rr, active(t))))
    B.__name__ = 'BuildBitmask_%s' % with_mask
    return B


for _wm in (False, True):
    REG.add(build_case(_wm))


@contract
class RegionInit:
    """CartesianGrid2D.__init__ stores exactly what _build_bitmask_vec returns: bbox_mask is layer 0 and idx_map layer 1 of its
    array, xs / ys its edges (so the postcondition of the constructor contract above IS the state the lookups start from)"""
    qualname = 'csep.core.regions.CartesianGrid2D.__init__'
    case = 'plumbing over _build_bitmask_vec (observed through a recording stub) and origins()'
    properties = ('C01',)

    def params(c):
        from pyvc.core import Lam
        ny, nx = c.int('ny'), c.int('nx')
        c.ctx.assume(z3.And(ny >= 1, nx >= 1))
        A = z3.Function('built', z3.IntSort(), z3.IntSort(), z3.IntSort(), z3.RealSort())
        a = Arr((ny, nx, 2), lambda ix: A(to_z3(ix[0]), to_z3(ix[1]), to_z3(ix[2])), 'float64')
        xs, ys = c.arr('xs', 'float64', n=nx), c.arr('ys', 'float64', n=ny)
        N = c.int('N')
        c.ctx.assume(N >= 1)
        orgs = c.arr2('origins', 'float64', (N, 2))
        me = c.obj('csep.core.regions.CartesianGrid2D')
        me.abstract = False
        me.fields['_build_bitmask_vec'] = Lam(lambda: (a, xs, ys))
        me.fields['origins'] = Lam(lambda: orgs)
        polys = c.obj(None, name='polygon list')
        return dict(self=me, polygons=polys, dh=c.real('dh'), name='r', mask=None, magnitudes=None, _v=dict(A=A, xs=xs, ys=ys, polys=polys, orgs=orgs))

    def ensures(c, r, self, polygons, dh, name, mask, magnitudes, _v):
        f = self.fields
        A = _v['A']
        yield 'polygons / dh / mask stored', z3.BoolVal(f.get('polygons') is _v['polys'] and f.get('dh') is dh and f.get('poly_mask') is None)
        bm, im = f.get('bbox_mask'), f.get('idx_map')
        yield 'mask and index map are 2-d', z3.BoolVal(isinstance(bm, Arr) and isinstance(im, Arr) and bm.ndim == 2 and im.ndim == 2)
        if isinstance(bm, Arr) and isinstance(im, Arr):
            rr, cc = c.ctx.fresh_int('r!sk'), c.ctx.fresh_int('c!sk')
            yield 'bbox_mask is layer 0, idx_map layer 1 of the built array', z3.And(
                to_real(bm.f((rr, cc))) == A(rr, cc, 0), to_real(im.f((rr, cc))) == A(rr, cc, 1))
        yield 'xs / ys are the built edges', z3.BoolVal(f.get('xs') is _v['xs'] and f.get('ys') is _v['ys'])
        b = f.get('bounds')
        yield 'bounds == [origin, origin + dh]', z3.BoolVal(isinstance(b, Arr) and b.ndim == 2)


# ---------------------------------------------------------------------------------------------------
# get_cartesian: the values of the cells laid out on the bounding-box lattice, NaN where there is no active cell
# ---------------------------------------------------------------------------------------------------
from pyvc.contracts import LoopInv      # noqa: E402


class _CartLoop(LoopInv):
    """results after the rows [0, i) (and, inside row i, the columns [0, j)): position (r, cc) holds data[cellat(r, cc)] if the
    lattice point is unmasked, NaN otherwise"""
    inner = False

    def havoc(self, I, fr, i, it):
        L = I.ctx.ghost['cart_lattice']
        R = I.ctx.fresh_fun('results', z3.IntSort(), z3.IntSort(), z3.RealSort())
        NF = I.ctx.fresh_fun('results_is_nan', z3.IntSort(), z3.IntSort(), z3.BoolSort())
        self.R, self.NF = R, NF
        res = Arr((L.ny, L.nx), lambda ix: R(to_z3(ix[0]), to_z3(ix[1])), 'float64', label='results')
        res.nan_f = lambda ix: NF(to_z3(ix[0]), to_z3(ix[1]))
        fr.locals['results'] = res
        fr.locals.pop('idx', None)
        if not self.inner:
            fr.locals.pop('j', None)

    def done(self, fr, i, r, cc):
        i = to_z3(i)
        if self.inner:
            row = to_z3(fr.locals['i'])
            return z3.Or(r < row, z3.And(r == row, cc < i))
        return r < i

    def clause(self, I, fr, res, r, cc):
        L = I.ctx.ghost['cart_lattice']
        data = I.ctx.ghost['cart_data']
        M = L.bbox_mask.fun
        nf = getattr(res, 'nan_f', None)
        isn = to_z3(nf((r, cc))) if nf is not None else z3.BoolVal(False)
        return z3.And(isn == (M(r, cc) != 0), z3.Implies(M(r, cc) == 0, to_real(res.f((r, cc))) == to_real(data.f((L.cellat(r, cc),)))))

    def inv(self, I, fr, i, it):
        L = I.ctx.ghost['cart_lattice']
        res = fr.locals['results']
        inbox = lambda r, cc: z3.And(0 <= r, r < L.ny, 0 <= cc, cc < L.nx)
        if self.mode == 'prove':
            r, cc = I.ctx.fresh_int('r!sk'), I.ctx.fresh_int('c!sk')
            yield 'positions written so far hold the value of their cell, NaN where no active cell lies', z3.Implies(
                z3.And(inbox(r, cc), self.done(fr, i, r, cc)), self.clause(I, fr, res, r, cc))
        else:
            r, cc = z3.Ints('r!inv c!inv')
            yield 'spec', z3.ForAll([r, cc], z3.Implies(z3.And(inbox(r, cc), self.done(fr, i, r, cc)), self.clause(I, fr, res, r, cc)),
                                    patterns=[self.R(r, cc), self.NF(r, cc)])


class _CartInner(_CartLoop):
    inner = True


def _directed_cartesian():
    """concrete lattices (conventions of rt/oracles_grid.grid_cartesian): full block, holes, flagged cells, shuffled cell order"""
    fam = []
    for a, h in (([0.0, 0.0], 0.1), ([-125.4, 31.5], 0.1)):
        for cells, mask in (([[x, y] for x in range(3) for y in range(2)], None), ([[0, 0], [2, 1], [1, 0], [0, 1], [2, 0]], [1, 1, 1, 1, 0]),
                            ([[2, 2], [0, 0], [1, 0], [0, 2]], None)):
            lat = {'anchor': a, 'dh': h, 'cells': cells}
            if mask:
                lat['mask'] = mask
            fam.append(('grid_cartesian', dict(lattice=lat)))
    return fam


@contract
class GetCartesian:
    directed = staticmethod(_directed_cartesian)
    qualname = 'csep.core.regions.CartesianGrid2D.get_cartesian'
    case = 'region satisfying RI, one value per cell'
    properties = ('C01',)
    loops = {0: _CartLoop(), 1: _CartInner()}

    def params(c):
        L = Lattice(c)
        data = c.arr('data', 'float64', n=L.N)
        c.ctx.ghost['cart_lattice'] = L
        c.ctx.ghost['cart_data'] = data
        return dict(self=L.obj(c), data=data, _L=L)

    def requires(c, self, data, _L):
        return _L.RI()

    def ensures(c, r, self, data, _L):
        L = _L
        ok = isinstance(r, Arr) and r.ndim == 2
        yield 'returns a 2-d array', z3.BoolVal(ok)
        if not ok:
            return
        yield 'of the shape of the bounding box (rows x columns)', z3.And(to_z3(r.shape[0]) == L.ny, to_z3(r.shape[1]) == L.nx)
        i = c.ctx.fresh_int('cell!sk')
        nf = getattr(r, 'nan_f', None)
        ini = z3.And(0 <= i, i < L.N)
        yield 'an active cell shows its value at its lattice position (row = y index, column = x index)', z3.Implies(
            z3.And(ini, L.active(i)), z3.And(to_real(r.f((L.cy(i), L.cx(i)))) == to_real(data.f((i,))),
                                             z3.Not(to_z3(nf((L.cy(i), L.cx(i))))) if nf is not None else z3.BoolVal(True)))
        rr, cc = c.ctx.fresh_int('r!sk'), c.ctx.fresh_int('c!sk')
        M = L.bbox_mask.fun
        yield 'a lattice position without an active cell (hole, flagged cell) shows NaN', z3.Implies(
            z3.And(0 <= rr, rr < L.ny, 0 <= cc, cc < L.nx, M(rr, cc) != 0), to_z3(nf((rr, cc))) if nf is not None else z3.BoolVal(False))

    def raises(c, exc, self, data, _L):
        return None


# ---------------------------------------------------------------------------------------------------
# get_location_of: the polygons of the given cell numbers, in the order asked for
# ---------------------------------------------------------------------------------------------------
def location_case(cls_name):
    from pyvc.core import SymList, Opaque

    class GL:
        qualname = 'csep.core.regions.%s.get_location_of' % cls_name
        case = 'any number of cell numbers, all in range'
        properties = ('C01',) if cls_name == 'CartesianGrid2D' else ('C17',)

        def params(c):
            N, m = c.int('n_cells'), c.int('n_asked')
            c.ctx.assume(z3.And(N >= 1, m >= 0))
            IDX = c.ctx.fresh_fun('asked', z3.IntSort(), z3.IntSort())
            POLY = z3.Function('polygon_of_cell', z3.IntSort(), z3.IntSort())
            polys = SymList(N, lambda i: Opaque('polygon', key=POLY(to_z3(i))), 'polygons')
            indices = SymList(m, lambda k: IDX(to_z3(k)), 'indices')
            me = c.obj('csep.core.regions.%s' % cls_name, polygons=polys)
            return dict(self=me, indices=indices, _N=N, _m=m, _IDX=IDX, _POLY=POLY)

        def requires(c, self, indices, _N, _m, _IDX, _POLY):
            k = z3.Int('k!rq')
            return [z3.ForAll([k], z3.Implies(z3.And(0 <= k, k < _m), z3.And(0 <= _IDX(k), _IDX(k) < _N)), patterns=[_IDX(k)])]

        def ensures(c, r, self, indices, _N, _m, _IDX, _POLY):
            ok = isinstance(r, SymList)
            yield 'returns a list', z3.BoolVal(ok or (isinstance(r, list) and not r))
            if ok:
                yield 'one polygon per cell number asked for', to_z3(r.n) == _m
                k = c.ctx.fresh_int('k!sk')
                # (the entry is evaluated for an index in range only: the case split on the fresh k is part of the proof)
                if c.ctx.branch(z3.And(0 <= k, k < _m)):
                    p = r.f(k)
                    yield 'entry k is the polygon of cell indices[k] (the order asked for, repetitions kept)', \
                        p.key == _POLY(_IDX(k)) if isinstance(p, Opaque) and p.name == 'polygon' else z3.BoolVal(False)
            else:
                yield 'no polygon only if none was asked for', _m == 0

        def raises(c, exc, **kw):
            return None
    GL.__name__ = 'GetLocationOf_' + cls_name
    return GL


from pyvc.contracts import REG as _REG_LOC      # noqa: E402
for _cn in ('CartesianGrid2D', 'QuadtreeGrid2D'):
    _REG_LOC.add(location_case(_cn))
