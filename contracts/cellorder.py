"""Property C20, cell order: the scores the gridded tests evaluate are sums over the cells, hence unchanged when the cells of
the region are re-ordered together with the forecast's rates (then the gridded observation, a function of the cell an event
falls in - C03 -, is re-ordered the same way).  Lemmas over the contracts of the score functions: two modular calls, the
second on the arrays re-ordered by an arbitrary bijection of the cell range; the only outside fact is the Lean-checked
L5_perm_sum (a sum is invariant under a bijection of its index range)."""
import z3

from pyvc.contracts import contract, pointwise_sum_hint
from pyvc.core import Arr, to_real, to_z3
from pyvc.lib import LOGGAMMA, SUM, EXP
from contracts.evals import rsum, bll_term

PJLL = 'csep.utils.stats.poisson_joint_log_likelihood_ndarray'
BJLL = 'csep.core.binomial_evaluations.binary_joint_log_likelihood_ndarray'
BRIER = 'csep.core.brier_evaluations._brier_score_ndarray'


def bijection(c, n):
    sg = c.ctx.fresh_fun('sigma', z3.IntSort(), z3.IntSort())
    tau = c.ctx.fresh_fun('sigma_inv', z3.IntSort(), z3.IntSort())
    t = z3.Int('t!pm')
    c.ctx.assume(z3.ForAll([t], z3.Implies(z3.And(0 <= t, t < n), z3.And(0 <= sg(t), sg(t) < n, tau(sg(t)) == t)), patterns=[sg(t)]))
    c.ctx.assume(z3.ForAll([t], z3.Implies(z3.And(0 <= t, t < n), z3.And(0 <= tau(t), tau(t) < n, sg(tau(t)) == t)), patterns=[tau(t)]))
    return sg


def reordered(a, sg, label):
    return Arr(a.shape, lambda ix: a.f((sg(to_z3(ix[0])),)), a.dtype, label=label)


def perm_sum(c, term, sg, n):
    """L5_perm_sum: sum_i term(sigma(i)) == sum_i term(i) over the cell range"""
    c.ctx.fact(rsum(lambda i: term(sg(i)), n) == rsum(term, n), lemma=True)
    c.I.used_lemmas.add('L5.permutation_preserves_counts')


@contract
class PoissonJLLCellOrder:
    qualname = 'lemma:C20:Poisson joint log-likelihood under a permutation of the cells'
    case = 'two modular calls, log-rates and observations re-ordered by the same bijection'
    properties = ('C20',)

    def lemma(c):
        n = c.int('n')
        c.ctx.assume(n >= 0)
        t, w = c.arr('log_rates', 'float64', n=n), c.arr('observations', 'float64', n=n)
        nf = c.real('n_fore')
        sg = bijection(c, n)
        r1 = c.call(PJLL, t, w, nf)
        r2 = c.call(PJLL, reordered(t, sg, 'log_rates (re-ordered)'), reordered(w, sg, 'observations (re-ordered)'), nf)
        perm_sum(c, lambda i: to_real(t.f((i,))), sg, n)
        perm_sum(c, lambda i: LOGGAMMA(to_real(w.f((i,))) + 1), sg, n)
        yield 'the joint log-likelihood (observed statistic of the L / CL / S / M tests) is unchanged', to_real(r2) == to_real(r1)


@contract
class BinaryJLLCellOrder:
    qualname = 'lemma:C20:binary joint log-likelihood under a permutation of the cells'
    case = 'two modular calls, positive rates and counts re-ordered by the same bijection'
    properties = ('C20',)

    def lemma(c):
        n = c.int('n')
        c.ctx.assume(n >= 0)
        f, k = c.arr('rates', 'float64', n=n), c.arr('counts', 'float64', n=n)
        i = z3.Int('i!rq')
        c.ctx.assume(z3.ForAll([i], z3.Implies(z3.And(0 <= i, i < n), z3.And(to_real(f.f((i,))) > 0, to_real(k.f((i,))) >= 0)), patterns=[f.f((i,))]))
        sg = bijection(c, n)
        f2, k2 = reordered(f, sg, 'rates (re-ordered)'), reordered(k, sg, 'counts (re-ordered)')
        r1 = c.call(BJLL, f, k)
        r2 = c.call(BJLL, f2, k2)
        perm_sum(c, lambda j: bll_term(f, k, j), sg, n)
        h = pointwise_sum_hint(c, 'summands of the re-ordered arrays are the re-ordered summands', rsum(lambda j: bll_term(f2, k2, j), n),
                               lambda j: bll_term(f, k, sg(j)), n)
        if h:
            yield h
        yield 'the binary joint log-likelihood is unchanged', to_real(r2) == to_real(r1)


@contract
class BrierCellOrder:
    qualname = 'lemma:C20:Brier score under a permutation of the cells'
    case = 'two modular calls, rates and observations re-ordered by the same bijection'
    properties = ('C20',)

    def lemma(c):
        n = c.int('n')
        c.ctx.assume(n >= 1)
        f, k = c.arr('rates', 'float64', n=n), c.arr('observations', 'float64', n=n)
        sg = bijection(c, n)
        f2, k2 = reordered(f, sg, 'rates (re-ordered)'), reordered(k, sg, 'observations (re-ordered)')
        r1 = c.call(BRIER, f, k)
        r2 = c.call(BRIER, f2, k2)

        def term(F, K):
            def at(j):
                d = 1 - EXP(-to_real(F.f((j,)))) - z3.If(to_real(K.f((j,))) > 0, z3.RealVal(1), z3.RealVal(0))
                return d * d
            return at
        perm_sum(c, term(f, k), sg, n)
        h = pointwise_sum_hint(c, 'summands of the re-ordered arrays are the re-ordered summands', rsum(term(f2, k2), n),
                               lambda j: term(f, k)(sg(j)), n)
        if h:
            yield h
        yield 'the Brier score is unchanged', to_real(r2) == to_real(r1)
