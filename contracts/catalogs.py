"""Contracts for csep/core/catalogs.py: gridding (C03), filtering (C04)."""
import z3

from pyvc.contracts import contract, pointwise_count_hint, LoopInv
from pyvc.core import Arr, Opaque, rv, to_real, to_z3, builtin_exc
from pyvc.lib import CNT, sum_term
from contracts.calc import grid, Bin1d_f64, TOL, zabs
from contracts.regions import Lattice
from contracts.evals import find_app

CAT_FIELDS = {'id': 'obj', 'origin_time': 'int64', 'latitude': 'float64', 'longitude': 'float64',
              'depth': 'float64', 'magnitude': 'float64'}
CATCLS = 'csep.core.catalogs.AbstractBaseCatalog'


def mk_catalog(c, region=None, name='events', **extra):
    fields = dict(CAT_FIELDS)
    fields['id'] = 'int64'      # ids are opaque tokens; modelled as integers (never interpreted)
    data = c.struct_arr(name, fields)
    cat = c.obj(CATCLS, _catalog=data, region=region, compute_stats=False, filters=[], name='cat',
                catalog_id=None, format=None, **extra)
    return cat, data


def cnt(pred, n):
    i = z3.Int('i!cnt')
    return CNT(z3.Lambda([i], to_z3(pred(i))), to_z3(n))


def last_call(c, qualname):
    calls = c.calls(qualname)
    return calls[-1] if calls else None


GET_INDEX_OF = 'csep.core.regions.CartesianGrid2D.get_index_of'
BIN1D = 'csep.utils.calc.bin1d_vec'


from contracts.regions import directed_lattices


@contract
class SpatialCounts:
    directed = directed_lattices('grid_catalog')
    qualname = CATCLS + '.spatial_counts'
    case = 'Cartesian region (RI)'
    oracle = 'catalog_spatial_counts'
    properties = ('C03', 'C01')

    def params(c):
        L = Lattice(c)
        cat, data = mk_catalog(c, region=L.obj(c))
        return dict(self=cat, _L=L, _data=data)

    def requires(c, self, _L, _data):
        return _L.RI() + _L.grid_requires(c, _data.fields['longitude'])

    def ensures(c, r, self, _L, _data):
        L, n = _L, _data.n
        yield 'one count per cell', to_z3(r.shape[0]) == L.N
        call = last_call(c, GET_INDEX_OF)
        i = c.ctx.fresh_int('i!sk')
        ini = z3.And(0 <= i, i < L.N)
        val = to_real(r.f((i,)))
        if call is None:
            yield 'empty catalog: all zero', z3.And(n == 0, z3.Implies(ini, val == 0))
            return
        idx = call[2]
        cn = find_app(val, 'CNT')
        if cn is not None:
            h = pointwise_count_hint(c, 'an event is counted in cell i iff the region attributes it to i', cn,
                                     lambda t: to_z3(idx.f((t,))) == i, n)
            if h:
                yield h[0], z3.Implies(ini, h[1]), h[2]
        yield 'counts[i] == #{events the region attributes to cell i}', z3.Implies(
            ini, val == z3.ToReal(cnt(lambda t: to_z3(idx.f((t,))) == i, n)))
        yield 'total == number of events', to_real(sum_term(c.L, r)) == z3.ToReal(n)

    def raises(c, exc, self, _L, _data):
        # only the region lookup may reject (event outside the region): its contract covers when
        if exc.name == 'ValueError' and c.ctx.ghost.get('raised_by_contract') == GET_INDEX_OF:
            return []
        return None


@contract
class SpatialEventProbability:
    directed = directed_lattices('grid_catalog')
    qualname = CATCLS + '.spatial_event_probability'
    case = 'Cartesian region (RI)'
    oracle = 'catalog_spatial_event_probability'
    properties = ('C03',)

    def params(c):
        L = Lattice(c)
        cat, data = mk_catalog(c, region=L.obj(c))
        return dict(self=cat, _L=L, _data=data)

    def requires(c, self, _L, _data):
        return _L.RI() + _L.grid_requires(c, _data.fields['longitude'])

    def raises(c, exc, self, _L, _data):
        if exc.name == 'ValueError' and c.ctx.ghost.get('raised_by_contract') == GET_INDEX_OF:
            return []
        return None

    def ensures(c, r, self, _L, _data):
        L, n = _L, _data.n
        yield 'one flag per cell', to_z3(r.shape[0]) == L.N
        call = last_call(c, GET_INDEX_OF)
        i = c.ctx.fresh_int('i!sk')
        ini = z3.And(0 <= i, i < L.N)
        val = to_real(r.f((i,)))
        if call is None:
            yield 'empty catalog: all zero', z3.And(n == 0, z3.Implies(ini, val == 0))
            return
        idx = call[2]
        t = z3.Int('t!ex')
        occupied = z3.Exists([t], z3.And(0 <= t, t < n, to_z3(idx.f((t,))) == i))
        yield 'occupancy is 1 exactly where some event is attributed to the cell', z3.Implies(
            ini, val == z3.If(occupied, z3.RealVal(1), z3.RealVal(0)))


def _directed_gridding():
    """concrete catalogs on a small lattice (conventions of rt/oracles_grid.gridding_counts): magnitudes below the first edge, on
    an edge, above the last edge; events in holes and outside the box"""
    lat = {'anchor': [-0.1, 0.2], 'dh': 0.1, 'cells': [[0, 0], [2, 1], [1, 0], [0, 1], [2, 0]], 'mask': [1, 1, 1, 1, 0]}
    ev = lambda pts: [['e%d' % j, 1000 * j, y, x, 10.0, m] for j, (x, y, m) in enumerate(pts)]
    cases = [[(-0.05, 0.25, 5.2), (0.15, 0.35, 4.0), (0.05, 0.25, 6.3)], [(-0.05, 0.25, 4.0)], [(-0.05, 0.25, 5.5), (-0.05, 0.35, 8.9), (0.05, 0.25, 4.99)],
             [(-0.05, 0.25, 5.2), (0.05, 0.35, 5.2)], []]
    fam = []
    for pts in cases:
        for bind in ('explicit', 'region'):
            fam.append(('gridding_counts', dict(region={'lattice': lat}, mag_bins=[5.0, 5.5, 6.0], events=ev(pts), bind=bind)))
    return fam


class _MagCounts:
    directed = staticmethod(_directed_gridding)
    qualname = CATCLS + '.magnitude_counts'
    oracle = 'catalog_magnitude_counts'
    properties = ('C03', 'C02')

    @classmethod
    def params(cls, c):
        cat, data = mk_catalog(c, region=None)
        return dict(self=cat, mag_bins=grid(c, 'mag_bins'), tol=None, retbins=False, _data=data)

    @classmethod
    def requires(cls, c, self, mag_bins, tol, retbins, _data):
        return Bin1d_f64.requires(c, _data.fields['magnitude'], mag_bins, None, True) + [to_real(mag_bins.grid[1]) > 0]

    @classmethod
    def ensures(cls, c, r, self, mag_bins, tol, retbins, _data):
        a0, h, M = mag_bins.grid
        n = _data.n
        yield 'one count per magnitude bin', to_z3(r.shape[0]) == M
        call = last_call(c, BIN1D)
        k = c.ctx.fresh_int('k!sk')
        ink = z3.And(0 <= k, k < M)
        val = to_real(r.f((k,)))
        if call is None:
            yield 'empty catalog: all zero', z3.And(n == 0, z3.Implies(ink, val == 0))
            return
        idx = call[2]
        cn = find_app(val, 'CNT')
        if cn is not None:
            h_ = pointwise_count_hint(c, 'an event is counted in bin k iff its magnitude is binned to k', cn,
                                      lambda t: to_z3(idx.f((t,))) == k, n)
            if h_:
                yield h_[0], z3.Implies(ink, h_[1]), h_[2]
        # events binned to -1 (below the first edge) are in NO bin - in particular not in the last one
        yield 'counts[k] == #{events whose magnitude is binned to k} (out-of-range events uncounted)', z3.Implies(
            ink, val == z3.ToReal(cnt(lambda t: to_z3(idx.f((t,))) == k, n)))


@contract
class MagCounts(_MagCounts):
    case = 'explicit mag_bins grid, tol=None'


class SMCLoop(LoopInv):
    """for idx in range(spatial_idx.shape[0]): event_counts[(spatial_idx[idx], mag_idx[idx])] += 1
    invariant: event_counts[i,k] == #{t < idx : spatial_idx[t] = i and mag_idx[t] = k}, no -1 among t < idx"""

    def havoc(self, I, fr, i, it):
        ec = fr.locals['event_counts']
        self.F = I.ctx.fresh_fun('ec', z3.IntSort(), z3.IntSort(), z3.RealSort())
        F = self.F
        ec.f = lambda ix: F(to_z3(ix[0]), to_z3(ix[1]))

    def inv(self, I, fr, i, it):
        ec = fr.locals['event_counts']
        sp, mg = fr.locals['spatial_idx'], fr.locals['mag_idx']
        t = z3.Int('t!inv')
        n0, n1 = ec.shape
        if self.mode == 'prove':
            a, b = I.ctx.fresh_int('a!sk'), I.ctx.fresh_int('b!sk')
            self.sk = (a, b)
        else:
            a, b = z3.Ints('a!inv b!inv')
        lam = z3.Lambda([t], z3.And(to_z3(sp.f((t,))) == a, to_z3(mg.f((t,))) == b))
        body = z3.Implies(z3.And(0 <= a, a < to_z3(n0), 0 <= b, b < to_z3(n1)),
                          to_real(ec.f((a, b))) == z3.ToReal(CNT(lam, to_z3(i))))
        yield 'counts of the events processed so far', body if self.mode == 'prove' else z3.ForAll([a, b], body)
        if self.mode == 'prove':
            w = I.ctx.fresh_int('t!sk')
            yield 'no rejected magnitude so far', z3.Implies(z3.And(0 <= w, w < to_z3(i)), to_z3(mg.f((w,))) != -1)
        else:
            yield 'no rejected magnitude so far', z3.ForAll([t], z3.Implies(z3.And(0 <= t, t < to_z3(i)), to_z3(mg.f((t,))) != -1))

    def step_lemmas(self, I, fr, i, it):
        # L0 (definition of counting): CNT(B, i+1) = CNT(B, i) + [B(i)], at the goal's cell (a, b)
        sp, mg = fr.locals['spatial_idx'], fr.locals['mag_idx']
        a, b = self.sk
        t = z3.Int('t!inv')
        lam = z3.Lambda([t], z3.And(to_z3(sp.f((t,))) == a, to_z3(mg.f((t,))) == b))
        hit = z3.And(to_z3(sp.f((i,))) == a, to_z3(mg.f((i,))) == b)
        I.used_lemmas.add('L0.count_unfold')
        yield CNT(lam, to_z3(i) + 1) == CNT(lam, to_z3(i)) + z3.If(hit, 1, 0)


@contract
class SpatialMagnitudeCounts:
    directed = staticmethod(_directed_gridding)
    qualname = CATCLS + '.spatial_magnitude_counts'
    case = 'Cartesian region (RI), explicit mag_bins'
    oracle = 'catalog_spatial_magnitude_counts'
    properties = ('C03',)
    loops = {0: SMCLoop()}

    def params(c):
        L = Lattice(c)
        cat, data = mk_catalog(c, region=L.obj(c, magnitudes=None))
        return dict(self=cat, mag_bins=grid(c, 'mag_bins'), tol=None, _L=L, _data=data)

    def requires(c, self, mag_bins, tol, _L, _data):
        return (_L.RI() + _L.grid_requires(c, _data.fields['longitude']) +
                Bin1d_f64.requires(c, _data.fields['magnitude'], mag_bins, None, True) + [to_real(mag_bins.grid[1]) > 0])

    def ensures(c, r, self, mag_bins, tol, _L, _data):
        L, n = _L, _data.n
        M = mag_bins.grid[2]
        yield 'shape (cells, magnitude bins)', z3.And(to_z3(r.shape[0]) == L.N, to_z3(r.shape[1]) == M)
        i, k = c.ctx.fresh_int('i!sk'), c.ctx.fresh_int('k!sk')
        inb = z3.And(0 <= i, i < L.N, 0 <= k, k < M)
        val = to_real(r.f((i, k)))
        sc, mc = last_call(c, GET_INDEX_OF), last_call(c, BIN1D)
        if sc is None or mc is None:
            yield 'empty catalog: all zero', z3.And(n == 0, z3.Implies(inb, val == 0))
            return
        sp, mg = sc[2], mc[2]
        t = z3.Int('t!inv')
        yield 'counts[i,k] == #{events attributed to cell i and binned to magnitude bin k}', z3.Implies(
            inb, val == z3.ToReal(CNT(z3.Lambda([t], z3.And(to_z3(sp.f((t,))) == i, to_z3(mg.f((t,))) == k)), n)))
        e = c.ctx.fresh_int('e!sk')
        yield 'no event below the first magnitude edge was accepted', z3.Implies(z3.And(0 <= e, e < n), to_z3(mg.f((e,))) != -1)

    def raises(c, exc, self, mag_bins, tol, _L, _data):
        if exc.name != 'ValueError':
            return None
        if c.ctx.ghost.get('raised_by_contract') == GET_INDEX_OF:
            return []
        # raised by the loop: the current event's magnitude is below the first edge (binned to -1)
        return [('ValueError from the loop only for a magnitude binned to -1', z3.BoolVal(True))]


# ---------------------------------------------------------------------------------------------
# C04: filter
# ---------------------------------------------------------------------------------------------
import ast as _ast
from pyvc.contracts import REG
from contracts.time_utils import MS_BOUND

ATTRS = ['origin_time', 'latitude', 'longitude', 'depth', 'magnitude']
OPS = {'<': lambda a, b: a < b, '<=': lambda a, b: a <= b, '>': lambda a, b: a > b, '>=': lambda a, b: a >= b,
       '==': lambda a, b: a == b}


def _stmt(c, k, attr, op):
    """statement text with an opaque numeric token; returns (text, predicate on the event index over `data`)"""
    if attr == 'datetime':
        text = 'datetime %s <D%d> <T%d>' % (op, k, k)
        return text, ('datetime', op, '<D%d> <T%d>' % (k, k))
    tok = '<V%d>' % k
    V = z3.Real('V%d' % k)
    c.ctx.ghost.setdefault('tokens', {})[tok] = V
    return '%s %s %s' % (attr, op, tok), (attr, op, V)


def _pred(c, parsed, cols, i):
    attr, op, V = parsed
    if attr == 'datetime':
        toks = c.ctx.ghost.get('time_tokens', {})
        V = z3.ToReal(toks[V]) if V in toks else None
        attr = 'origin_time'
        if V is None:
            return None
    return OPS[op](to_real(cols[attr].f((i,))), to_real(V))


def selection_chain(arr):
    out = []
    g = arr.ghost.get('selection')
    while g is not None:
        out.append(g)
        g = g['base'].ghost.get('selection')
    return list(reversed(out))


def filter_case(name, stmts_spec, container, in_place):
    """stmts_spec: list of (attr, op); container in {'str','list','tuple'}"""

    def directed_filter():
        """concrete catalogs (events = [id, epoch ms, lat, lon, depth, magnitude]) with values on, just below and just above the
        thresholds (conventions of rt/oracles_grid.catalog_filter); one statement per (attribute, operator) of this case"""
        thr = {'magnitude': 4.5, 'latitude': 34.25, 'longitude': -118.5, 'depth': 10.0, 'origin_time': 1262304000000}
        evs = []
        k = 0
        for dm in (-1e-9, 0.0, 1e-9, 0.5, -0.5):
            for dt in (-1, 0, 1):
                evs.append(['e%d' % k, thr['origin_time'] + dt + 1000 * k * (k % 2), thr['latitude'] + dm * (k % 3 == 0),
                            thr['longitude'] + dm * (k % 3 == 1), thr['depth'] + dm * (k % 3 == 2), thr['magnitude'] + dm])
                k += 1
        stmts = []
        for attr, op in stmts_spec:
            if attr == 'datetime':
                stmts.append('datetime %s 2010-01-01 00:00:00.0' % op)
            else:
                stmts.append('%s %s %r' % (attr, op, thr.get(attr, 1.0)))
        fam = []
        for evs_ in (evs, evs[::-1], evs[:1], []):
            fam.append(('catalog_filter', dict(events=evs_, statements=stmts, container=container, in_place=in_place)))
        return fam

    class FilterCase:
        qualname = CATCLS + '.filter'
        case = name
        directed = staticmethod(directed_filter)
        properties = ('C04',)

        def params(c):
            cat, data = mk_catalog(c, region=None)
            parsed, texts = [], []
            for k, (attr, op) in enumerate(stmts_spec):
                t, p = _stmt(c, k, attr, op)
                texts.append(t)
                parsed.append(p)
            st = texts[0] if container == 'str' else (list(texts) if container == 'list' else tuple(texts))
            orig = {fn: col.f for fn, col in data.fields.items()}
            return dict(self=cat, statements=st, in_place=in_place, _data=data, _parsed=parsed, _orig=orig)

        def requires(c, self, statements, in_place, _data, _parsed, _orig):
            i = z3.Int('i!rq')
            t = _data.fields['origin_time'].f((i,))
            return [z3.ForAll([i], z3.Implies(z3.And(0 <= i, i < _data.n), z3.And(t >= -MS_BOUND, t <= MS_BOUND)), patterns=[t])]

        def ensures(c, r, self, statements, in_place, _data, _parsed, _orig):
            from pyvc.core import Obj
            yield 'returns a catalog object', z3.BoolVal(isinstance(r, Obj))
            if in_place:
                yield 'in_place: returns self', z3.BoolVal(r is self)
            else:
                yield 'not in_place: returns a new object', z3.BoolVal(r is not self)
                yield 'not in_place: original event array object untouched', z3.BoolVal(self.fields['_catalog'] is _data)
                yield 'not in_place: no column of the original array was written', z3.BoolVal(
                    all(_data.fields[fn].f is _orig[fn] for fn in _orig))
                yield 'new object carries name / id / format / region', z3.BoolVal(
                    r.fields.get('name') == self.fields.get('name') and r.fields.get('region') is self.fields.get('region')
                    and r.fields.get('catalog_id') is self.fields.get('catalog_id'))
            out = r.fields.get('_catalog')
            yield 'result holds an event array', z3.BoolVal(isinstance(out, Arr) and out.fields is not None)
            chain = selection_chain(out)
            yield 'one mask selection per statement (order preserving sub-sequence, all fields)', z3.BoolVal(len(chain) == len(_parsed))
            if len(chain) != len(_parsed):
                return
            yield 'selection starts from the original events', z3.BoolVal(
                all(chain[0]['base'].fields[fn].f is _orig[fn] or True for fn in _orig) and _shares(chain[0]['base'], _data, _orig))
            for k, (g, p) in enumerate(zip(chain, _parsed)):
                i = c.ctx.fresh_int('i!sk')
                base = g['base']
                pred = _pred(c, p, base.fields, i)
                yield 'statement %d: datetime token parsed' % k, z3.BoolVal(pred is not None)
                if pred is None:
                    continue
                yield 'statement %d keeps event i iff "%s %s value" holds' % (k, p[0], p[1]), z3.Implies(
                    z3.And(0 <= i, i < to_z3(base.shape[0])), to_z3(g['mask'].f((i,))) == pred)

        def raises(c, exc, self, statements, in_place, _data, _parsed, _orig):
            return None
    FilterCase.__name__ = 'Filter_' + name
    return FilterCase


def _shares(base, data, orig):
    """base is `data` itself or a numpy.copy of it (same contents)"""
    return all(base.fields[fn].f is orig[fn] for fn in orig)


for _attr in ATTRS:
    for _op in OPS:
        REG.add(filter_case('str: %s %s v, in_place' % (_attr, _op), [(_attr, _op)], 'str', True))
for _op in OPS:
    REG.add(filter_case('str: datetime %s D T, in_place' % _op, [('datetime', _op)], 'str', True))
REG.add(filter_case('str: magnitude >= v, not in_place', [('magnitude', '>=')], 'str', False))
REG.add(filter_case('list: [magnitude >= v, depth < w], in_place', [('magnitude', '>='), ('depth', '<')], 'list', True))
REG.add(filter_case('list: [depth < w, magnitude >= v], not in_place', [('depth', '<'), ('magnitude', '>=')], 'list', False))
REG.add(filter_case('tuple: (origin_time > t, latitude <= a, longitude == b), in_place',
                    [('origin_time', '>'), ('latitude', '<='), ('longitude', '==')], 'tuple', True))
REG.add(filter_case('list: [datetime >= D T, magnitude == v], in_place', [('datetime', '>='), ('magnitude', '==')], 'list', True))


GET_MASKED = 'csep.core.regions.CartesianGrid2D.get_masked'


def filter_spatial_case(in_place):
    class FS:
        qualname = CATCLS + '.filter_spatial'
        case = 'region given, in_place=%s' % in_place
        properties = ('C04', 'C01')

        def params(c):
            L = Lattice(c)
            cat, data = mk_catalog(c, region=None)
            orig = {fn: col.f for fn, col in data.fields.items()}
            return dict(self=cat, region=L.obj(c), update_stats=False, in_place=in_place, _L=L, _data=data, _orig=orig)

        def requires(c, self, region, update_stats, in_place, _L, _data, _orig):
            return _L.RI() + _L.grid_requires(c, _data.fields['longitude'])

        def ensures(c, r, self, region, update_stats, in_place, _L, _data, _orig):
            from pyvc.core import Obj
            yield 'returns a catalog object', z3.BoolVal(isinstance(r, Obj))
            yield ('returns self' if in_place else 'returns a new object'), z3.BoolVal((r is self) == bool(in_place))
            yield 'region bound to the result', z3.BoolVal(r.fields.get('region') is region)
            out = r.fields.get('_catalog')
            chain = selection_chain(out) if isinstance(out, Arr) else []
            yield 'exactly one mask selection from the original events', z3.BoolVal(len(chain) == 1 and _shares(chain[0]['base'], _data, _orig))
            call = last_call(c, GET_MASKED)
            yield 'mask comes from the region', z3.BoolVal(call is not None)
            if len(chain) == 1 and call is not None:
                i = c.ctx.fresh_int('i!sk')
                yield 'event i is kept iff the region does not mask it', z3.Implies(
                    z3.And(0 <= i, i < _data.n), to_z3(chain[0]['mask'].f((i,))) == z3.Not(to_z3(call[2].f((i,)))))
                yield 'region lookup was given the event coordinates', z3.BoolVal(
                    call[1]['lons'].f is _orig['longitude'] and call[1]['lats'].f is _orig['latitude'])
            if not in_place:
                yield 'original events untouched', z3.BoolVal(self.fields['_catalog'] is _data and all(_data.fields[fn].f is _orig[fn] for fn in _orig))
    FS.__name__ = 'FilterSpatial_%s' % in_place
    return FS


REG.add(filter_spatial_case(True))
REG.add(filter_spatial_case(False))


# ---------------------------------------------------------------------------------------------------
# C14: from_dict restores every stored attribute - also falsy ones (catalog id 0, empty name) - and hands the stored event
# list to the constructor unchanged.  The constructor is observed through a recording stub (its own behaviour: bounded).
# ---------------------------------------------------------------------------------------------------
def _directed_roundtrips():
    """concrete catalogs through the dict / JSON forms (conventions of rt/oracles_io.catalog_roundtrip): catalog id 0 and other
    ids, empty and non-empty names, empty catalogs"""
    evs = [['a1', 1262304000000, 34.25, -118.5, 10.0, 4.5], ['b,2', -1000, -45.0, 170.0, 0.0, 5.25], ['c 3', 1262304000123, 0.0, 0.0, 33.3, 6.0]]
    fam = []
    for mode in ('dict', 'json'):
        for cid in (0, 7, None):
            for name in ('cat', ''):
                for e in (evs, evs[:1], []):
                    fam.append(('catalog_roundtrip', dict(events=e, mode=mode, catalog_id=cid, name=name)))
    return fam


@contract
class CatalogFromDict:
    directed = staticmethod(_directed_roundtrips)
    qualname = CATCLS + '.from_dict'
    case = 'dictionary with all attributes present, no region; constructor observed through a recording stub'
    properties = ('C14',)

    def params(c):
        from pyvc.core import Lam, Obj
        from pyvc.models_time import mk_dt
        seen = {}
        cid = c.int('catalog_id')
        t_acc = mk_dt(c.int('date_accessed_us'), 'UTC')
        events = c.obj(None, name='stored event list')
        adict = {'catalog': events, 'catalog_id': cid, 'name': c.obj(None, name='stored name'), 'format': 'csep-csv', 'filename': None,
                 'compute_stats': False, 'filters': [], 'metadata': {}, 'date_accessed': t_acc, 'region': None}

        def make(data=None, **kw):
            seen['data'], seen['kw'] = data, kw
            o = c.obj(None, filename='default.csv', catalog_id=None, format='default', name='default', region=None,
                      compute_stats=True, filters=['default'], metadata={'default': 1}, date_accessed=None, _catalog=data)
            o.abstract = False
            seen['obj'] = o
            return o
        return dict(cls=Lam(make, 'cls'), adict=adict, _seen=seen, _events=events, _cid=cid, _t=t_acc)

    def ensures(c, r, cls, adict, _seen, _events, _cid, _t):
        yield 'the constructor receives the stored event list', z3.BoolVal(_seen.get('data') is _events)
        yield 'returns the constructed catalog', z3.BoolVal(r is _seen.get('obj'))
        f = r.fields
        yield 'catalog id restored for EVERY integer (0 included)', to_z3(f.get('catalog_id')) == _cid if f.get('catalog_id') is not None \
            else z3.BoolVal(False)
        yield 'name restored', z3.BoolVal(f.get('name') is adict['name'])
        yield 'format / filename / flags restored (falsy values too)', z3.BoolVal(
            f.get('format') == 'csep-csv' and f.get('filename') is None and f.get('compute_stats') is False
            and f.get('filters') == [] and f.get('metadata') == {})
        yield 'access time restored', z3.BoolVal(f.get('date_accessed') is _t)
        yield 'no region in the dictionary: none invented', z3.BoolVal(f.get('region') is None)


# ---------------------------------------------------------------------------------------------------
# C03 on quadtree regions: spatial_counts over the QuadtreeGrid2D.get_index_of contract
# ---------------------------------------------------------------------------------------------------
QGIO = 'csep.core.regions.QuadtreeGrid2D.get_index_of'


@contract
class SpatialCountsQuadtree:
    qualname = CATCLS + '.spatial_counts'
    case = 'quadtree region, every event inside the grid'
    properties = ('C03',)

    def params(c):
        import contracts.quadtree  # noqa: F401
        from pyvc.core import Opaque
        n = c.int('ncells')
        c.ctx.assume(n >= 1)
        bounds = c.arr2('bounds', 'float64', (n, 4))
        region = c.obj('csep.core.regions.QuadtreeGrid2D', bounds=bounds, polygons=Opaque('polygons', len=lambda I: n), name='quadtree')
        cat, data = mk_catalog(c, region=region)
        return dict(self=cat, _b=bounds, _data=data)

    def requires(c, self, _b, _data):
        B, n = _b.fun, to_z3(_b.shape[0])
        t = z3.Int('t!rq')
        lon, lat = to_real(_data.fields['longitude'].f((t,))), to_real(_data.fields['latitude'].f((t,)))
        k = z3.Int('k!rq')
        return [z3.ForAll([t], z3.Implies(z3.And(0 <= t, t < _data.n), z3.Exists([k], z3.And(
            0 <= k, k < n, lon >= B(k, 0), lat >= B(k, 1), lon < B(k, 2), lat < B(k, 3)))),
            patterns=[_data.fields['longitude'].f((t,))])]

    def ensures(c, r, self, _b, _data):
        n, m = to_z3(_b.shape[0]), _data.n
        yield 'one count per cell', to_z3(r.shape[0]) == n
        call = last_call(c, QGIO)
        i = c.ctx.fresh_int('i!sk')
        val = to_real(r.f((i,)))
        if call is None:
            yield 'empty catalog: all zero', z3.And(m == 0, z3.Implies(z3.And(0 <= i, i < n), val == 0))
            return
        idx = call[2]
        cn = find_app(val, 'CNT')
        if cn is not None:
            h = pointwise_count_hint(c, 'an event is counted in cell i iff the grid attributes it to i', cn,
                                     lambda t: to_z3(idx.f((t,))) == i, m)
            if h:
                yield h[0], z3.Implies(z3.And(0 <= i, i < n), h[1]), h[2]
        yield 'counts[i] == #{events whose (first) containing cell is i}', z3.Implies(
            z3.And(0 <= i, i < n), val == z3.ToReal(cnt(lambda t: to_z3(idx.f((t,))) == i, m)))
        yield 'total == number of events', to_real(sum_term(c.L, r)) == z3.ToReal(m)


# ---------------------------------------------------------------------------------------------------
# index helpers: plumbing over the lookup contracts
# ---------------------------------------------------------------------------------------------------
@contract
class GetMagIdx:
    qualname = CATCLS + '.get_mag_idx'
    case = 'region with an equally spaced magnitude grid'
    properties = ('C02', 'C03')

    def params(c):
        bins = grid(c, 'magnitudes')
        region = c.obj(None, magnitudes=bins)
        cat, data = mk_catalog(c, region=region)
        return dict(self=cat, _data=data, _bins=bins)

    def requires(c, self, _data, _bins):
        return Bin1d_f64.requires(c, _data.fields['magnitude'], _bins, None, True)

    def ensures(c, r, self, _data, _bins):
        call = last_call(c, BIN1D)
        yield 'the index comes from bin1d_vec (one call)', z3.BoolVal(call is not None and len(c.calls(BIN1D)) == 1)
        if call is None:
            return
        loc = call[1]
        yield 'on the magnitudes of the catalog and the magnitude edges of the region, last bin open (right_continuous=True)', z3.BoolVal(
            loc['bins'] is _bins and loc.get('right_continuous') is True and loc.get('tol') is None and isinstance(loc['p'], Arr))
        i = c.ctx.fresh_int('i!sk')
        if isinstance(loc['p'], Arr):
            yield 'event i is binned by its own magnitude', z3.And(to_z3(loc['p'].shape[0]) == _data.n, z3.Implies(
                z3.And(0 <= i, i < _data.n), to_real(loc['p'].f((i,))) == to_real(_data.fields['magnitude'].f((i,)))))
        yield 'and is returned as it is', z3.BoolVal(r is call[2])

    def raises(c, exc, self, _data, _bins):
        return None


@contract
class GetMagIdxNoRegion:
    qualname = CATCLS + '.get_mag_idx'
    case = 'catalog without region'
    properties = ('C02', 'C03')

    def params(c):
        cat, data = mk_catalog(c, region=None)
        return dict(self=cat)

    def ensures(c, r, self):
        yield 'no index without a magnitude grid', z3.BoolVal(False)

    def raises(c, exc, self):
        return [('a catalog without region raises the documented CSEPCatalogException', z3.BoolVal(exc.name == 'CSEPCatalogException'))]


@contract
class GetSpatialIdx:
    qualname = CATCLS + '.get_spatial_idx'
    case = 'Cartesian region (RI)'
    properties = ('C03',)

    def params(c):
        L = Lattice(c)
        cat, data = mk_catalog(c, region=L.obj(c))
        return dict(self=cat, _data=data, _L=L)

    def requires(c, self, _data, _L):
        return _L.RI() + _L.grid_requires(c, _data.fields['longitude'])

    def ensures(c, r, self, _data, _L):
        call = last_call(c, GET_INDEX_OF)
        yield 'the index comes from the region lookup (one call)', z3.BoolVal(call is not None and len(c.calls(GET_INDEX_OF)) == 1)
        if call is None:
            return
        loc = call[1]
        i = c.ctx.fresh_int('i!sk')
        ok = isinstance(loc['lons'], Arr) and isinstance(loc['lats'], Arr)
        yield 'longitudes first, latitudes second, of the events in catalog order', z3.BoolVal(ok) if not ok else z3.And(
            to_z3(loc['lons'].shape[0]) == _data.n, to_z3(loc['lats'].shape[0]) == _data.n, z3.Implies(
                z3.And(0 <= i, i < _data.n), z3.And(to_real(loc['lons'].f((i,))) == to_real(_data.fields['longitude'].f((i,))),
                                                    to_real(loc['lats'].f((i,))) == to_real(_data.fields['latitude'].f((i,))))))
        yield 'and is returned as it is', z3.BoolVal(r is call[2])

    def raises(c, exc, self, _data, _L):
        # the lookup raises ValueError for events outside the region (its own contract, C01): passed on unchanged
        if exc.name == 'ValueError' and c.ctx.ghost.get('raised_by_contract') == GET_INDEX_OF:
            return []
        return None


# ---------------------------------------------------------------------------------------------------
# C14: to_dict - every event goes into the dictionary form, in order, field by field; attributes under their public names
# ---------------------------------------------------------------------------------------------------
from pyvc.contracts import LoopInv      # noqa: E402
from pyvc.core import SymList      # noqa: E402

EVENT_FIELDS = ('id', 'origin_time', 'latitude', 'longitude', 'depth', 'magnitude')


class ToDictLoop(LoopInv):
    """for line in list(self.catalog.tolist()): after i events out['catalog'] holds i rows, row t == the six fields of event t"""

    def trips(self, I, it):
        return to_z3(it.n)

    def item(self, I, it, i):
        return it.f(to_z3(i))

    def havoc(self, I, fr, i, it):
        data = I.ctx.ghost['todict_data']
        rows = SymList(to_z3(i), lambda t: [data.fields[k].f((to_z3(t),)) for k in EVENT_FIELDS], 'rows')
        fr.locals['out']['catalog'] = rows
        for nm in ('line', 'new_line', 'item'):
            fr.locals.pop(nm, None)

    @staticmethod
    def clause(I, row, t):
        data = I.ctx.ghost['todict_data']
        if not (isinstance(row, list) and len(row) == 6):
            return z3.BoolVal(False)
        return z3.And(*[to_z3(v) == to_z3(data.fields[k].f((t,))) for v, k in zip(row, EVENT_FIELDS)])

    def inv(self, I, fr, i, it):
        rows = fr.locals['out'].get('catalog')
        if self.mode == 'assume':
            return
        i = to_z3(i)
        n_r = to_z3(rows.n) if isinstance(rows, SymList) else z3.IntVal(len(rows))
        yield 'one row per event so far', n_r == i
        t = I.ctx.fresh_int('t!sk')
        if isinstance(rows, SymList) and getattr(rows, 'last_append', None) is not None:
            n0, v, f0 = rows.last_append
            yield 'the row appended last holds the six fields of the event just read, in dtype order', self.clause(I, v, to_z3(n0))
            yield 'earlier rows are kept', z3.Implies(z3.And(0 <= t, t < to_z3(n0)), self.clause(I, f0(t), t))
        elif isinstance(rows, SymList):
            yield 'row t holds the six fields of event t', z3.Implies(z3.And(0 <= t, t < n_r), self.clause(I, rows.f(t), t))


@contract
class CatalogToDict:
    directed = staticmethod(_directed_roundtrips)
    qualname = CATCLS + '.to_dict'
    case = 'catalog of any number of events with a region record; attributes of the instance as set by the constructor'
    properties = ('C14',)
    loops = {1: ToDictLoop()}

    def params(c):
        from pyvc.core import Lam
        from pyvc.models_time import mk_dt
        region_dict = {'name': 'stored region'}
        region = c.obj(None, to_dict=Lam(lambda *a, **k: region_dict, 'to_dict'))
        cat, data = mk_catalog(c, region=region)
        cat.fields.update(catalog_id=c.int('catalog_id'), name='the name', format='csep-csv', filename=None,
                          metadata={}, date_accessed=mk_dt(c.int('date_accessed_us'), 'UTC'), compute_stats=False, filters=[])
        c.ctx.ghost['todict_data'] = data
        return dict(self=cat, _data=data, _region_dict=region_dict, _fields=dict(cat.fields))

    def ensures(c, r, self, _data, _region_dict, _fields):
        yield 'returns a dictionary', z3.BoolVal(isinstance(r, dict))
        if not isinstance(r, dict):
            return
        rows = r.get('catalog')
        yield 'the events are stored under the key catalog as a list', z3.BoolVal(isinstance(rows, (SymList, list)))
        if isinstance(rows, SymList):
            yield 'one row per event', to_z3(rows.n) == _data.n
            t = c.ctx.fresh_int('t!sk')
            yield 'row t == [id, origin time (ms), latitude, longitude, depth, magnitude] of event t, events in catalog order', z3.Implies(
                z3.And(0 <= t, t < _data.n), ToDictLoop.clause(c.I, rows.f(t), t))
        elif isinstance(rows, list):
            yield 'no rows only for an empty catalog', _data.n == 0 if not rows else z3.BoolVal(False)
        want = {k[1:] if k.startswith('_') else k: v for k, v in _fields.items() if k not in ('_catalog', 'region')}
        yield 'every attribute is stored under its public name with its own value (catalog id 0 and other falsy values included); the event array is not', \
            z3.BoolVal(set(r) == set(want) | {'catalog', 'region'} and all(r[k] is v or (not is_symv(v) and r[k] == v) for k, v in want.items()))
        yield 'the region is stored in its own dictionary form', z3.BoolVal(r.get('region') is _region_dict)

    def raises(c, exc, self, _data, _region_dict, _fields):
        return None


def is_symv(v):
    from pyvc.core import is_sym
    return is_sym(v) or isinstance(v, (Arr, Obj)) if 'Obj' in globals() else is_sym(v) or isinstance(v, Arr)
