"""Contracts for csep/core/catalogs.py: gridding (C03), filtering (C04)."""
import z3

from pyvc.contracts import contract, pointwise_count_hint, LoopInv
from pyvc.core import Arr, Opaque, rv, to_real, to_z3, builtin_exc
from pyvc.lib import CNT, sum_term
from contracts.calc import grid, Bin1d_f64, TOL, zabs
from contracts.regions import Lattice
from contracts.evals import find_app

CAT_FIELDS = {'id': 'obj', 'origin_time': 'int64', 'latitude': 'float64', 'longitude': 'float64',
              'depth': 'float64', 'magnitude': 'float64'}
CATCLS = 'csep.core.catalogs.AbstractBaseCatalog'


def mk_catalog(c, region=None, name='events', **extra):
    fields = dict(CAT_FIELDS)
    fields['id'] = 'int64'      # ids are opaque tokens; modelled as integers (never interpreted)
    data = c.struct_arr(name, fields)
    cat = c.obj(CATCLS, _catalog=data, region=region, compute_stats=False, filters=[], name='cat',
                catalog_id=None, format=None, **extra)
    return cat, data


def cnt(pred, n):
    i = z3.Int('i!cnt')
    return CNT(z3.Lambda([i], to_z3(pred(i))), to_z3(n))


def last_call(c, qualname):
    calls = c.calls(qualname)
    return calls[-1] if calls else None


GET_INDEX_OF = 'csep.core.regions.CartesianGrid2D.get_index_of'
BIN1D = 'csep.utils.calc.bin1d_vec'


@contract
class SpatialCounts:
    qualname = CATCLS + '.spatial_counts'
    case = 'Cartesian region (RI)'
    oracle = 'catalog_spatial_counts'
    properties = ('C03', 'C01')

    def params(c):
        L = Lattice(c)
        cat, data = mk_catalog(c, region=L.obj(c))
        return dict(self=cat, _L=L, _data=data)

    def requires(c, self, _L, _data):
        return _L.RI() + _L.grid_requires(c, _data.fields['longitude'])

    def ensures(c, r, self, _L, _data):
        L, n = _L, _data.n
        yield 'one count per cell', to_z3(r.shape[0]) == L.N
        call = last_call(c, GET_INDEX_OF)
        i = c.ctx.fresh_int('i!sk')
        ini = z3.And(0 <= i, i < L.N)
        val = to_real(r.f((i,)))
        if call is None:
            yield 'empty catalog: all zero', z3.And(n == 0, z3.Implies(ini, val == 0))
            return
        idx = call[2]
        cn = find_app(val, 'CNT')
        if cn is not None:
            h = pointwise_count_hint(c, 'an event is counted in cell i iff the region attributes it to i', cn,
                                     lambda t: to_z3(idx.f((t,))) == i, n)
            if h:
                yield h[0], z3.Implies(ini, h[1]), h[2]
        yield 'counts[i] == #{events the region attributes to cell i}', z3.Implies(
            ini, val == z3.ToReal(cnt(lambda t: to_z3(idx.f((t,))) == i, n)))
        yield 'total == number of events', to_real(sum_term(c.L, r)) == z3.ToReal(n)

    def raises(c, exc, self, _L, _data):
        # only the region lookup may reject (event outside the region): its contract covers when
        if exc.name == 'ValueError' and c.ctx.ghost.get('raised_by_contract') == GET_INDEX_OF:
            return []
        return None


@contract
class SpatialEventProbability:
    qualname = CATCLS + '.spatial_event_probability'
    case = 'Cartesian region (RI)'
    oracle = 'catalog_spatial_event_probability'
    properties = ('C03',)

    def params(c):
        L = Lattice(c)
        cat, data = mk_catalog(c, region=L.obj(c))
        return dict(self=cat, _L=L, _data=data)

    def requires(c, self, _L, _data):
        return _L.RI() + _L.grid_requires(c, _data.fields['longitude'])

    def raises(c, exc, self, _L, _data):
        if exc.name == 'ValueError' and c.ctx.ghost.get('raised_by_contract') == GET_INDEX_OF:
            return []
        return None

    def ensures(c, r, self, _L, _data):
        L, n = _L, _data.n
        yield 'one flag per cell', to_z3(r.shape[0]) == L.N
        call = last_call(c, GET_INDEX_OF)
        i = c.ctx.fresh_int('i!sk')
        ini = z3.And(0 <= i, i < L.N)
        val = to_real(r.f((i,)))
        if call is None:
            yield 'empty catalog: all zero', z3.And(n == 0, z3.Implies(ini, val == 0))
            return
        idx = call[2]
        t = z3.Int('t!ex')
        occupied = z3.Exists([t], z3.And(0 <= t, t < n, to_z3(idx.f((t,))) == i))
        yield 'occupancy is 1 exactly where some event is attributed to the cell', z3.Implies(
            ini, val == z3.If(occupied, z3.RealVal(1), z3.RealVal(0)))


class _MagCounts:
    qualname = CATCLS + '.magnitude_counts'
    oracle = 'catalog_magnitude_counts'
    properties = ('C03', 'C02')

    @classmethod
    def params(cls, c):
        cat, data = mk_catalog(c, region=None)
        return dict(self=cat, mag_bins=grid(c, 'mag_bins'), tol=None, retbins=False, _data=data)

    @classmethod
    def requires(cls, c, self, mag_bins, tol, retbins, _data):
        return Bin1d_f64.requires(c, _data.fields['magnitude'], mag_bins, None, True) + [to_real(mag_bins.grid[1]) > 0]

    @classmethod
    def ensures(cls, c, r, self, mag_bins, tol, retbins, _data):
        a0, h, M = mag_bins.grid
        n = _data.n
        yield 'one count per magnitude bin', to_z3(r.shape[0]) == M
        call = last_call(c, BIN1D)
        k = c.ctx.fresh_int('k!sk')
        ink = z3.And(0 <= k, k < M)
        val = to_real(r.f((k,)))
        if call is None:
            yield 'empty catalog: all zero', z3.And(n == 0, z3.Implies(ink, val == 0))
            return
        idx = call[2]
        cn = find_app(val, 'CNT')
        if cn is not None:
            h_ = pointwise_count_hint(c, 'an event is counted in bin k iff its magnitude is binned to k', cn,
                                      lambda t: to_z3(idx.f((t,))) == k, n)
            if h_:
                yield h_[0], z3.Implies(ink, h_[1]), h_[2]
        # events binned to -1 (below the first edge) are in NO bin - in particular not in the last one
        yield 'counts[k] == #{events whose magnitude is binned to k} (out-of-range events uncounted)', z3.Implies(
            ink, val == z3.ToReal(cnt(lambda t: to_z3(idx.f((t,))) == k, n)))


@contract
class MagCounts(_MagCounts):
    case = 'explicit mag_bins grid, tol=None'


class SMCLoop(LoopInv):
    """for idx in range(spatial_idx.shape[0]): event_counts[(spatial_idx[idx], mag_idx[idx])] += 1
    invariant: event_counts[i,k] == #{t < idx : spatial_idx[t] = i and mag_idx[t] = k}, no -1 among t < idx"""

    def havoc(self, I, fr, i, it):
        ec = fr.locals['event_counts']
        self.F = I.ctx.fresh_fun('ec', z3.IntSort(), z3.IntSort(), z3.RealSort())
        F = self.F
        ec.f = lambda ix: F(to_z3(ix[0]), to_z3(ix[1]))

    def inv(self, I, fr, i, it):
        ec = fr.locals['event_counts']
        sp, mg = fr.locals['spatial_idx'], fr.locals['mag_idx']
        t = z3.Int('t!inv')
        n0, n1 = ec.shape
        if self.mode == 'prove':
            a, b = I.ctx.fresh_int('a!sk'), I.ctx.fresh_int('b!sk')
            self.sk = (a, b)
        else:
            a, b = z3.Ints('a!inv b!inv')
        lam = z3.Lambda([t], z3.And(to_z3(sp.f((t,))) == a, to_z3(mg.f((t,))) == b))
        body = z3.Implies(z3.And(0 <= a, a < to_z3(n0), 0 <= b, b < to_z3(n1)),
                          to_real(ec.f((a, b))) == z3.ToReal(CNT(lam, to_z3(i))))
        yield 'counts of the events processed so far', body if self.mode == 'prove' else z3.ForAll([a, b], body)
        if self.mode == 'prove':
            w = I.ctx.fresh_int('t!sk')
            yield 'no rejected magnitude so far', z3.Implies(z3.And(0 <= w, w < to_z3(i)), to_z3(mg.f((w,))) != -1)
        else:
            yield 'no rejected magnitude so far', z3.ForAll([t], z3.Implies(z3.And(0 <= t, t < to_z3(i)), to_z3(mg.f((t,))) != -1))

    def step_lemmas(self, I, fr, i, it):
        # L0 (definition of counting): CNT(B, i+1) = CNT(B, i) + [B(i)], at the goal's cell (a, b)
        sp, mg = fr.locals['spatial_idx'], fr.locals['mag_idx']
        a, b = self.sk
        t = z3.Int('t!inv')
        lam = z3.Lambda([t], z3.And(to_z3(sp.f((t,))) == a, to_z3(mg.f((t,))) == b))
        hit = z3.And(to_z3(sp.f((i,))) == a, to_z3(mg.f((i,))) == b)
        I.used_lemmas.add('L0.count_unfold')
        yield CNT(lam, to_z3(i) + 1) == CNT(lam, to_z3(i)) + z3.If(hit, 1, 0)


@contract
class SpatialMagnitudeCounts:
    qualname = CATCLS + '.spatial_magnitude_counts'
    case = 'Cartesian region (RI), explicit mag_bins'
    oracle = 'catalog_spatial_magnitude_counts'
    properties = ('C03',)
    loops = {0: SMCLoop()}

    def params(c):
        L = Lattice(c)
        cat, data = mk_catalog(c, region=L.obj(c, magnitudes=None))
        return dict(self=cat, mag_bins=grid(c, 'mag_bins'), tol=None, _L=L, _data=data)

    def requires(c, self, mag_bins, tol, _L, _data):
        return (_L.RI() + _L.grid_requires(c, _data.fields['longitude']) +
                Bin1d_f64.requires(c, _data.fields['magnitude'], mag_bins, None, True) + [to_real(mag_bins.grid[1]) > 0])

    def ensures(c, r, self, mag_bins, tol, _L, _data):
        L, n = _L, _data.n
        M = mag_bins.grid[2]
        yield 'shape (cells, magnitude bins)', z3.And(to_z3(r.shape[0]) == L.N, to_z3(r.shape[1]) == M)
        i, k = c.ctx.fresh_int('i!sk'), c.ctx.fresh_int('k!sk')
        inb = z3.And(0 <= i, i < L.N, 0 <= k, k < M)
        val = to_real(r.f((i, k)))
        sc, mc = last_call(c, GET_INDEX_OF), last_call(c, BIN1D)
        if sc is None or mc is None:
            yield 'empty catalog: all zero', z3.And(n == 0, z3.Implies(inb, val == 0))
            return
        sp, mg = sc[2], mc[2]
        t = z3.Int('t!inv')
        yield 'counts[i,k] == #{events attributed to cell i and binned to magnitude bin k}', z3.Implies(
            inb, val == z3.ToReal(CNT(z3.Lambda([t], z3.And(to_z3(sp.f((t,))) == i, to_z3(mg.f((t,))) == k)), n)))
        e = c.ctx.fresh_int('e!sk')
        yield 'no event below the first magnitude edge was accepted', z3.Implies(z3.And(0 <= e, e < n), to_z3(mg.f((e,))) != -1)

    def raises(c, exc, self, mag_bins, tol, _L, _data):
        if exc.name != 'ValueError':
            return None
        if c.ctx.ghost.get('raised_by_contract') == GET_INDEX_OF:
            return []
        # raised by the loop: the current event's magnitude is below the first edge (binned to -1)
        return [('ValueError from the loop only for a magnitude binned to -1', z3.BoolVal(True))]
