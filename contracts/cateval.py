"""Contracts for the catalog-based consistency tests (csep/core/catalog_evaluations.py) - property C10.
The loop `for i, catalog in enumerate(forecast)` is cut by the PASS invariant of contracts/catforecast.py."""
import z3

from pyvc.contracts import contract, REG
from pyvc.core import Arr, Obj, SymList, simp, to_real, to_z3
from pyvc import spec
import contracts.stats
from contracts.catforecast import PassInv, _list_forecast, EC, FILT, SRC, mk_cat

CE = 'csep.core.catalog_evaluations.'
GQ = 'csep.utils.stats.get_quantiles'


class NumberLoop(PassInv):
    """event_counts holds the sizes of the catalogs of the pass seen so far, in order"""

    def havoc(self, I, fr, i, it):
        fo = self.forecast(it)
        fr.locals['event_counts'] = SymList(to_z3(i), lambda j: EC(self.pass_key(fo, j)), 'event_counts')

    def inv(self, I, fr, i, it):
        yield from PassInv.inv(self, I, fr, i, it)
        fo = self.forecast(it)
        lst = fr.locals['event_counts']
        n_l = to_z3(lst.n) if isinstance(lst, SymList) else z3.IntVal(len(lst))
        yield 'one count per catalog seen', n_l == to_z3(i)
        if isinstance(lst, list):
            return
        if self.mode == 'prove':
            j = I.ctx.fresh_int('j!sk')
            yield 'entry j is the size of catalog j of the pass (configured filters applied)', z3.Implies(
                z3.And(0 <= j, j < to_z3(i)), to_z3(lst.f(j)) == EC(self.pass_key(fo, j)))


def number_case(apply_filters):
    class NT:
        qualname = CE + 'number_test'
        case = 'list-backed catalog forecast, apply_filters=%s' % apply_filters
        properties = ('C10',)
        loops = {0: NumberLoop()}

        def params(c):
            fo, J, nE = _list_forecast(c, apply_filters, min_magnitude=c.real('min_mw'))
            obs = c.obj(None, event_count=c.int('n_obs'), name='obs')
            obs.as_str = lambda I: 'observed catalog'
            return dict(forecast=fo, observed_catalog=obs, verbose=False, _J=J)

        def requires(c, forecast, observed_catalog, verbose, _J):
            return [observed_catalog.fields['event_count'] >= 0]

        def ensures(c, r, forecast, observed_catalog, verbose, _J):
            key = (lambda k: FILT(SRC(k))) if apply_filters else (lambda k: SRC(k))
            n_obs = observed_catalog.fields['event_count']
            yield 'returns a result object', z3.BoolVal(isinstance(r, Obj))
            td = r.fields.get('test_distribution')
            yield 'test distribution: one entry per synthetic catalog', z3.BoolVal(isinstance(td, SymList))
            if isinstance(td, SymList):
                yield 'number of entries == number of catalogs', to_z3(td.n) == _J
                j = c.ctx.fresh_int('j!sk')
                yield 'entry j == number of events of synthetic catalog j', z3.Implies(
                    z3.And(0 <= j, j < _J), to_z3(td.f(j)) == EC(key(j)))
            yield 'observed statistic == number of observed events', to_z3(r.fields.get('observed_statistic')) == n_obs
            calls = c.calls(GQ)
            yield 'quantiles come from the empirical distribution of the catalog sizes (one call)', z3.BoolVal(len(calls) == 1)
            if calls:
                loc, out = calls[0][1], calls[0][2]
                q = r.fields.get('quantile')
                yield 'quantile == (delta_1, delta_2) of get_quantiles(sizes, n_obs)', z3.BoolVal(
                    isinstance(q, tuple) and len(q) == 2 and q[0] is out[0] and q[1] is out[1])
                sc = loc['sim_counts']
                k = c.ctx.fresh_int('k!sk')
                yield 'the empirical distribution is that of the catalog sizes', z3.And(
                    to_z3(sc.shape[0]) == _J, z3.Implies(z3.And(0 <= k, k < _J), to_z3(sc.f((k,))) == EC(key(k))))
                yield 'evaluated at the observed count', to_real(loc['obs_count']) == z3.ToReal(n_obs)
            yield 'status / names', z3.BoolVal(r.fields.get('status') == 'normal' and r.fields.get('name') == 'Catalog N-Test'
                                               and r.fields.get('sim_name') == 'fc' and r.fields.get('obs_name') == 'obs')
    NT.__name__ = 'CatalogNumberTest_%s' % apply_filters
    return NT


for _af in (False, True):
    REG.add(number_case(_af))


# ---------------------------------------------------------------------------------------------------
# catalog spatial test: normalised spatial pseudo-likelihood of every synthetic catalog; NaN (undefined) entries are
# removed from the test distribution; an empty observation is reported as 'not-valid'
# ---------------------------------------------------------------------------------------------------
from pyvc.core import MaybeNan, Opaque
from pyvc.lib import method, LOG, SUM, CNT, NAN
from contracts.catforecast import CatSort

SCF = z3.Function('spatial_counts_of', CatSort, z3.IntSort(), z3.RealSort())
CL = 'csep.utils.calc._compute_likelihood'


@method('catalog', 'spatial_counts')
def _cat_spatial_counts(L, cat, *a, **k):
    n0 = L.ctx.ghost['n_cells']
    key = cat.key
    i = z3.Int('i!sc')
    L.ctx.fact(z3.ForAll([i], SCF(key, i) >= 0, patterns=[SCF(key, i)]))
    return Arr((n0,), lambda ix: SCF(key, to_z3(ix[0])), 'float64')


def _rsum(fn, n):
    i = z3.Int('i!lam')
    return SUM(z3.Lambda([i], to_real(fn(i))), to_z3(n))


def lnorm_spec(counts, rates, n_cells):
    """(total, sum_{g>0} g * log(rate / sum rate)) of a gridded catalog"""
    tot_rate = _rsum(lambda i: rates.f((i,)), n_cells)
    total = _rsum(counts, n_cells)
    lln = _rsum(lambda i: z3.If(to_real(counts(i)) != 0, to_real(counts(i)) * LOG(to_real(rates.f((i,))) / tot_rate), z3.RealVal(0)), n_cells)
    return total, lln


class SpatialLoop(PassInv):
    """test_distribution holds, for every catalog of the pass seen so far, its normalised spatial pseudo-likelihood, or NaN
    where that is undefined (catalog without events, empty observation, zero expected count)"""

    def havoc(self, I, fr, i, it):
        self.ISN = I.ctx.fresh_fun('entry_is_nan', z3.IntSort(), z3.BoolSort())
        self.VAL = I.ctx.fresh_fun('entry_value', z3.IntSort(), z3.RealSort())
        ISN, VAL = self.ISN, self.VAL
        fr.locals['test_distribution'] = SymList(to_z3(i), lambda s: MaybeNan(ISN(to_z3(s)), VAL(to_z3(s))), 'test_distribution')
        for nm in ('gridded_cat', 'lh_norm', '_'):
            fr.locals.pop(nm, None)

    def at_exit(self, I, fr, it):
        PassInv.at_exit(self, I, fr, it)
        # L3b_count_pos (Lean): a catalog whose entry is a number is counted among the entries that are numbers.  Instance at
        # the catalog the precondition names (some synthetic catalog is not empty when the expected count is not zero).
        fo = self.forecast(it)
        J = to_z3(fo.fields['n_cat'])
        j0 = I.ctx.ghost.get('some_nonempty_catalog')
        if j0 is not None and hasattr(self, 'ISN'):
            t = z3.Int('i!lam')
            I.ctx.fact(z3.Implies(z3.And(0 <= j0, j0 < J, z3.Not(self.ISN(j0))),
                                  CNT(z3.Lambda([t], z3.Not(self.ISN(t))), J) >= 1), lemma=True)
            I.used_lemmas.add('L3.count_pos')

    def inv(self, I, fr, i, it):
        yield from PassInv.inv(self, I, fr, i, it)
        fo = self.forecast(it)
        lst = fr.locals['test_distribution']
        n_l = to_z3(lst.n) if isinstance(lst, SymList) else z3.IntVal(len(lst))
        yield 'one entry per catalog seen', n_l == to_z3(i)
        if isinstance(lst, list):
            return
        rates = fr.locals['forecast_mean_spatial_rates']
        n_cells = I.ctx.ghost['n_cells']
        n_obs, E = to_real(fr.locals['n_obs']), to_real(fr.locals['expected_cond_count'])

        def clause(s):
            e = MaybeNan.of(lst.f(s))
            total, lln = lnorm_spec(lambda a: SCF(self.pass_key(fo, s), a), rates, n_cells)
            undefined = z3.Or(total == 0, n_obs == 0, E == 0)
            return z3.And(e.isnan == undefined, z3.Implies(z3.Not(undefined), e.val * total == lln))
        if self.mode == 'prove':
            s = I.ctx.fresh_int('s!sk')
            cur = simp(to_z3(i) - 1)
            yield 'earlier entries are kept', z3.Implies(z3.And(0 <= s, s < cur), clause(s))
            yield 'the new entry is the normalised spatial pseudo-likelihood of its catalog (NaN iff undefined)', z3.Implies(
                cur >= 0, clause(cur))
        else:
            s = z3.Int('s!inv')
            yield 'spec', z3.ForAll([s], z3.Implies(z3.And(0 <= s, s < to_z3(i)), clause(s)),
                                    patterns=[self.ISN(s), self.VAL(s)] if hasattr(self, 'ISN') else [])


def spatial_case(apply_filters):
    loop = SpatialLoop()

    def directed_spatial():
        """concrete forecasts (conventions of rt/oracles_catfc.catfc_test): empty synthetic catalogs among non-empty ones, empty
        and non-empty observations, all inside the sampled cells"""
        g = {'nx': 2, 'ny': 2, 'dh': 1.0, 'x0': 0.0, 'y0': 0.0, 'mags': [4.0, 5.0, 6.0]}
        fam = []
        for syn in ([[], [[0, 0]], [[1, 1], [1, 2]]], [[[0, 0], [0, 1], [2, 2], [2, 0]], [], []], [[[3, 1]] * 3 + [[0, 0]], [[1, 0]]]):
            cells = sorted({c for ev in syn for c, _ in ev})
            for obs in ([], [[cells[0], 0]], [[cells[0], 0], [cells[-1], 1], [cells[0], 2]]):
                fam.append(('catfc_test', dict(test='spatial_test', grid=g, synthetic=syn, observed=obs, source='list')))
        return fam

    class ST:
        directed = staticmethod(directed_spatial)
        qualname = CE + 'spatial_test'
        case = 'list-backed catalog forecast with expected rates, apply_filters=%s' % apply_filters
        properties = ('C10',)
        loops = {0: loop}

        def params(c):
            from pyvc.core import Lam
            n0 = c.int('n_cells')
            c.ctx.assume(n0 >= 1)
            c.ctx.ghost['n_cells'] = n0
            j0 = c.int('some_nonempty_catalog')
            c.ctx.ghost['some_nonempty_catalog'] = j0
            rates = c.arr('mean_spatial_rates', 'float64', n=n0)
            E = c.real('expected_cond_count')
            exp = c.obj(None, sum=Lam(lambda *a, **k: E), spatial_counts=Lam(lambda *a, **k: rates))
            fo, J, nE = _list_forecast(c, apply_filters, min_magnitude=c.real('min_mw'), expected_rates=exp,
                                       region=c.obj(None, name='region'))
            obs_counts = c.arr('observed_spatial_counts', 'float64', n=n0)
            obs = c.obj(None, event_count=c.int('n_obs_events'), name='obs', spatial_counts=Lam(lambda *a, **k: obs_counts))
            return dict(forecast=fo, observed_catalog=obs, verbose=False, _v=dict(J=J, rates=rates, E=E, obs=obs_counts, n0=n0, j0=j0))

        def requires(c, forecast, observed_catalog, verbose, _v):
            rates, obs, n0 = _v['rates'], _v['obs'], _v['n0']
            i = z3.Int('i!rq')
            return [observed_catalog.fields['event_count'] >= 0,
                    z3.ForAll([i], z3.Implies(z3.And(0 <= i, i < n0), rates.f((i,)) >= 0), patterns=[rates.f((i,))]),
                    z3.ForAll([i], z3.Implies(z3.And(0 <= i, i < n0), obs.f((i,)) >= 0), patterns=[obs.f((i,))]),
                    # observed events only in cells some synthetic catalog sampled (otherwise: the 'undersampled' path, bounded only)
                    z3.ForAll([i], z3.Implies(z3.And(0 <= i, i < n0, obs.f((i,)) > 0), rates.f((i,)) > 0), patterns=[obs.f((i,))]),
                    # the expected count is the mean size of the synthetic catalogs (what get_expected_rates establishes: C13);
                    # used in the form: a non-zero expected count means some synthetic catalog has an event (L4_sum_ne_zero_exists)
                    z3.Implies(_v['E'] != 0, z3.And(0 <= _v['j0'], _v['j0'] < _v['J'], ST.size_of(_v, _v['j0']) != 0))]

        @staticmethod
        def size_of(_v, j):
            key = (lambda k: FILT(SRC(k))) if apply_filters else (lambda k: SRC(k))
            a = z3.Int('i!lam')
            return SUM(z3.Lambda([a], SCF(key(j), a)), _v['n0'])

        def ensures(c, r, forecast, observed_catalog, verbose, _v):
            J, rates, E, obs, n0 = _v['J'], _v['rates'], _v['E'], _v['obs'], _v['n0']
            key = (lambda k: FILT(SRC(k))) if apply_filters else (lambda k: SRC(k))
            yield 'returns a result object', z3.BoolVal(isinstance(r, Obj))
            n_obs = _rsum(lambda i: obs.f((i,)), n0)
            total_o, lln_o = lnorm_spec(lambda a: obs.f((a,)), rates, n0)
            undefined_o = z3.Or(total_o == 0, n_obs == 0, E == 0)
            st = r.fields.get('status')
            os_ = r.fields.get('observed_statistic')
            q = r.fields.get('quantile')
            yield 'status is a definite string', z3.BoolVal(st in ('normal', 'not-valid', 'undersampled'))
            if st == 'not-valid':
                yield "'not-valid' only when the statistic of the observation is undefined (no observed events / zero expected count)", undefined_o
                yield "'not-valid': no numeric quantile", z3.BoolVal(isinstance(q, tuple) and q == (-1, -1))
            else:
                yield 'a quantile is reported only when the observed statistic is defined', z3.Not(undefined_o)
                yield 'observed statistic == normalised spatial pseudo-likelihood of the observed catalog', z3.BoolVal(
                    not isinstance(os_, (MaybeNan, Opaque))) if isinstance(os_, (MaybeNan, Opaque)) else to_real(os_) * total_o == lln_o
                calls = c.calls(GQ)
                yield 'quantiles come from get_quantiles (one call)', z3.BoolVal(len(calls) == 1)
                if calls:
                    loc, out = calls[0][1], calls[0][2]
                    yield 'quantile == (delta_1, delta_2)', z3.BoolVal(isinstance(q, tuple) and len(q) == 2 and q[0] is out[0] and q[1] is out[1])
                    yield 'evaluated at the observed statistic', z3.BoolVal(loc['obs_count'] is os_)
            td = r.fields.get('test_distribution')
            yield 'test distribution is an array', z3.BoolVal(isinstance(td, Arr) and td.ndim == 1)
            if isinstance(td, Arr):
                # every entry of the reported distribution is a number (NaN entries removed) ...
                nf = getattr(td, 'nan_f', None)
                j = c.ctx.fresh_int('j!sk')
                if nf is not None:
                    yield 'no NaN is left in the test distribution', z3.Implies(z3.And(0 <= j, j < to_z3(td.shape[0])), z3.Not(to_z3(nf((j,)))))
                # ... and their number is the number of synthetic catalogs whose statistic is defined
                t = z3.Int('i!cnt')

                def defined(s):
                    total, _ = lnorm_spec(lambda a: SCF(key(s), a), rates, n0)
                    return z3.Not(z3.Or(total == 0, n_obs == 0, E == 0))
                sels = list((c.ctx.ghost.get('selections') or {}).values())
                if sels:
                    from pyvc.contracts import pointwise_count_hint
                    g = sels[-1]
                    for f in c.ctx.facts:
                        if z3.is_eq(f) and f.arg(0).eq(g['m']) and z3.is_app(f.arg(1)) and f.arg(1).decl().name() == 'CNT':
                            h = pointwise_count_hint(c, 'an entry is kept iff the statistic of its catalog is defined', f.arg(1), defined, J)
                            if h:
                                yield h
                if td.ghost.get('selection') is None:
                    # nothing was removed (no entry is NaN): every catalog's statistic is defined - L3b_count_all
                    s0 = c.ctx.fresh_int('s!all')
                    if hasattr(loop, 'ISN'):
                        yield 'hint:loop invariant at an arbitrary catalog', z3.Implies(
                            z3.And(0 <= s0, s0 < J), loop.ISN(s0) == z3.Not(defined(s0)))
                    yield ('hint:no NaN entry: every statistic is defined', z3.Implies(z3.And(0 <= s0, s0 < J), defined(s0)),
                           CNT(z3.Lambda([t], defined(t)), J) == J)
                yield 'one entry per synthetic catalog whose statistic is defined', \
                    to_z3(td.shape[0]) == CNT(z3.Lambda([t], defined(t)), J)
    ST.__name__ = 'CatalogSpatialTest_%s' % apply_filters
    return ST


for _af in (False, True):
    REG.add(spatial_case(_af))
