"""Contracts for the catalog-based consistency tests (csep/core/catalog_evaluations.py) - property C10.
The loop `for i, catalog in enumerate(forecast)` is cut by the PASS invariant of contracts/catforecast.py."""
import z3

from pyvc.contracts import contract, REG
from pyvc.core import Arr, Obj, SymList, simp, to_real, to_z3
from pyvc import spec
import contracts.stats
from contracts.catforecast import PassInv, _list_forecast, EC, FILT, SRC, mk_cat

CE = 'csep.core.catalog_evaluations.'
GQ = 'csep.utils.stats.get_quantiles'


class NumberLoop(PassInv):
    """event_counts holds the sizes of the catalogs of the pass seen so far, in order"""

    def havoc(self, I, fr, i, it):
        fo = self.forecast(it)
        fr.locals['event_counts'] = SymList(to_z3(i), lambda j: EC(self.pass_key(fo, j)), 'event_counts')

    def inv(self, I, fr, i, it):
        yield from PassInv.inv(self, I, fr, i, it)
        fo = self.forecast(it)
        lst = fr.locals['event_counts']
        n_l = to_z3(lst.n) if isinstance(lst, SymList) else z3.IntVal(len(lst))
        yield 'one count per catalog seen', n_l == to_z3(i)
        if isinstance(lst, list):
            return
        if self.mode == 'prove':
            j = I.ctx.fresh_int('j!sk')
            yield 'entry j is the size of catalog j of the pass (configured filters applied)', z3.Implies(
                z3.And(0 <= j, j < to_z3(i)), to_z3(lst.f(j)) == EC(self.pass_key(fo, j)))


def directed_catfc(test):
    """concrete forecasts (conventions of rt/oracles_catfc.catfc_test): empty synthetic catalogs among non-empty ones, empty
    and non-empty observations, all inside the sampled cells"""
    def fam():
        g = {'nx': 2, 'ny': 2, 'dh': 1.0, 'x0': 0.0, 'y0': 0.0, 'mags': [4.0, 5.0, 6.0]}
        out = []
        for syn in ([[], [[0, 0]], [[1, 1], [1, 2]]], [[[0, 0], [0, 1], [2, 2], [2, 0]], [], []], [[[3, 1]] * 3 + [[0, 0]], [[1, 0]]]):
            cells = sorted({c for ev in syn for c, _ in ev})
            for obs in ([], [[cells[0], 0]], [[cells[0], 0], [cells[-1], 1], [cells[0], 2]]):
                out.append(('catfc_test', dict(test=test, grid=g, synthetic=syn, observed=obs, source='list')))
            if test == 'pseudolikelihood_test':
                # observed events in cells no synthetic catalog sampled (the 'undersampled' path), with and without events left
                free = [k for k in range(4) if k not in cells]
                if free:
                    out.append(('catfc_test', dict(test=test, grid=g, synthetic=syn, observed=[[cells[0], 0], [free[0], 1]], source='list')))
                    out.append(('catfc_test', dict(test=test, grid=g, synthetic=syn, observed=[[free[0], 1]], source='list')))
        return out
    return staticmethod(fam)


def number_case(apply_filters):
    class NT:
        directed = directed_catfc('number_test')
        qualname = CE + 'number_test'
        case = 'list-backed catalog forecast, apply_filters=%s' % apply_filters
        properties = ('C10', 'C07')
        loops = {0: NumberLoop()}

        def params(c):
            fo, J, nE = _list_forecast(c, apply_filters, min_magnitude=c.real('min_mw'))
            obs = c.obj(None, event_count=c.int('n_obs'), name='obs')
            obs.as_str = lambda I: 'observed catalog'
            return dict(forecast=fo, observed_catalog=obs, verbose=False, _J=J)

        def requires(c, forecast, observed_catalog, verbose, _J):
            return [observed_catalog.fields['event_count'] >= 0]

        def ensures(c, r, forecast, observed_catalog, verbose, _J):
            key = (lambda k: FILT(SRC(k))) if apply_filters else (lambda k: SRC(k))
            n_obs = observed_catalog.fields['event_count']
            yield 'returns a result object', z3.BoolVal(isinstance(r, Obj))
            td = r.fields.get('test_distribution')
            yield 'test distribution: one entry per synthetic catalog', z3.BoolVal(isinstance(td, SymList))
            if isinstance(td, SymList):
                yield 'number of entries == number of catalogs', to_z3(td.n) == _J
                j = c.ctx.fresh_int('j!sk')
                yield 'entry j == number of events of synthetic catalog j', z3.Implies(
                    z3.And(0 <= j, j < _J), to_z3(td.f(j)) == EC(key(j)))
            yield 'observed statistic == number of observed events', to_z3(r.fields.get('observed_statistic')) == n_obs
            calls = c.calls(GQ)
            yield 'quantiles come from the empirical distribution of the catalog sizes (one call)', z3.BoolVal(len(calls) == 1)
            if calls:
                loc, out = calls[0][1], calls[0][2]
                q = r.fields.get('quantile')
                yield 'quantile == (delta_1, delta_2) of get_quantiles(sizes, n_obs)', z3.BoolVal(
                    isinstance(q, tuple) and len(q) == 2 and q[0] is out[0] and q[1] is out[1])
                sc = loc['sim_counts']
                k = c.ctx.fresh_int('k!sk')
                yield 'the empirical distribution is that of the catalog sizes', z3.And(
                    to_z3(sc.shape[0]) == _J, z3.Implies(z3.And(0 <= k, k < _J), to_z3(sc.f((k,))) == EC(key(k))))
                yield 'evaluated at the observed count', to_real(loc['obs_count']) == z3.ToReal(n_obs)
            yield 'status / names', z3.BoolVal(r.fields.get('status') == 'normal' and r.fields.get('name') == 'Catalog N-Test'
                                               and r.fields.get('sim_name') == 'fc' and r.fields.get('obs_name') == 'obs')
    NT.__name__ = 'CatalogNumberTest_%s' % apply_filters
    return NT


for _af in (False, True):
    REG.add(number_case(_af))


# ---------------------------------------------------------------------------------------------------
# catalog spatial test: normalised spatial pseudo-likelihood of every synthetic catalog; NaN (undefined) entries are
# removed from the test distribution; an empty observation is reported as 'not-valid'
# ---------------------------------------------------------------------------------------------------
from pyvc.core import MaybeNan, Opaque
from pyvc.lib import method, LOG, SUM, CNT, NAN
from contracts.catforecast import CatSort

SCF = z3.Function('spatial_counts_of', CatSort, z3.IntSort(), z3.RealSort())
CL = 'csep.utils.calc._compute_likelihood'


@method('catalog', 'spatial_counts')
def _cat_spatial_counts(L, cat, *a, **k):
    n0 = L.ctx.ghost['n_cells']
    key = cat.key
    i = z3.Int('i!sc')
    L.ctx.fact(z3.ForAll([i], SCF(key, i) >= 0, patterns=[SCF(key, i)]))
    return Arr((n0,), lambda ix: SCF(key, to_z3(ix[0])), 'float64')


def _rsum(fn, n):
    i = z3.Int('i!lam')
    return SUM(z3.Lambda([i], to_real(fn(i))), to_z3(n))


def lnorm_spec(counts, rates, n_cells):
    """(total, sum_{g>0} g * log(rate / sum rate)) of a gridded catalog"""
    tot_rate = _rsum(lambda i: rates.f((i,)), n_cells)
    total = _rsum(counts, n_cells)
    lln = _rsum(lambda i: z3.If(to_real(counts(i)) != 0, to_real(counts(i)) * LOG(to_real(rates.f((i,))) / tot_rate), z3.RealVal(0)), n_cells)
    return total, lln


class SpatialLoop(PassInv):
    """test_distribution holds, for every catalog of the pass seen so far, its normalised spatial pseudo-likelihood, or NaN
    where that is undefined (catalog without events, empty observation, zero expected count)"""

    def havoc(self, I, fr, i, it):
        self.ISN = I.ctx.fresh_fun('entry_is_nan', z3.IntSort(), z3.BoolSort())
        self.VAL = I.ctx.fresh_fun('entry_value', z3.IntSort(), z3.RealSort())
        ISN, VAL = self.ISN, self.VAL
        fr.locals['test_distribution'] = SymList(to_z3(i), lambda s: MaybeNan(ISN(to_z3(s)), VAL(to_z3(s))), 'test_distribution')
        for nm in ('gridded_cat', 'lh_norm', '_'):
            fr.locals.pop(nm, None)

    def at_exit(self, I, fr, it):
        PassInv.at_exit(self, I, fr, it)
        # L3b_count_pos (Lean): a catalog whose entry is a number is counted among the entries that are numbers.  Instance at
        # the catalog the precondition names (some synthetic catalog is not empty when the expected count is not zero).
        fo = self.forecast(it)
        J = to_z3(fo.fields['n_cat'])
        j0 = I.ctx.ghost.get('some_nonempty_catalog')
        if j0 is not None and hasattr(self, 'ISN'):
            t = z3.Int('i!lam')
            I.ctx.fact(z3.Implies(z3.And(0 <= j0, j0 < J, z3.Not(self.ISN(j0))),
                                  CNT(z3.Lambda([t], z3.Not(self.ISN(t))), J) >= 1), lemma=True)
            I.used_lemmas.add('L3.count_pos')

    def inv(self, I, fr, i, it):
        yield from PassInv.inv(self, I, fr, i, it)
        fo = self.forecast(it)
        lst = fr.locals['test_distribution']
        n_l = to_z3(lst.n) if isinstance(lst, SymList) else z3.IntVal(len(lst))
        yield 'one entry per catalog seen', n_l == to_z3(i)
        if isinstance(lst, list):
            return
        rates = fr.locals['forecast_mean_spatial_rates']
        n_cells = I.ctx.ghost['n_cells']
        n_obs, E = to_real(fr.locals['n_obs']), to_real(fr.locals['expected_cond_count'])

        def clause(s):
            e = MaybeNan.of(lst.f(s))
            total, lln = lnorm_spec(lambda a: SCF(self.pass_key(fo, s), a), rates, n_cells)
            undefined = z3.Or(total == 0, n_obs == 0, E == 0)
            return z3.And(e.isnan == undefined, z3.Implies(z3.Not(undefined), e.val * total == lln))
        if self.mode == 'prove':
            s = I.ctx.fresh_int('s!sk')
            cur = simp(to_z3(i) - 1)
            yield 'earlier entries are kept', z3.Implies(z3.And(0 <= s, s < cur), clause(s))
            yield 'the new entry is the normalised spatial pseudo-likelihood of its catalog (NaN iff undefined)', z3.Implies(
                cur >= 0, clause(cur))
        else:
            s = z3.Int('s!inv')
            yield 'spec', z3.ForAll([s], z3.Implies(z3.And(0 <= s, s < to_z3(i)), clause(s)),
                                    patterns=[self.ISN(s), self.VAL(s)] if hasattr(self, 'ISN') else [])


def spatial_case(apply_filters):
    loop = SpatialLoop()

    def directed_spatial():
        """concrete forecasts (conventions of rt/oracles_catfc.catfc_test): empty synthetic catalogs among non-empty ones, empty
        and non-empty observations, all inside the sampled cells"""
        g = {'nx': 2, 'ny': 2, 'dh': 1.0, 'x0': 0.0, 'y0': 0.0, 'mags': [4.0, 5.0, 6.0]}
        fam = []
        for syn in ([[], [[0, 0]], [[1, 1], [1, 2]]], [[[0, 0], [0, 1], [2, 2], [2, 0]], [], []], [[[3, 1]] * 3 + [[0, 0]], [[1, 0]]]):
            cells = sorted({c for ev in syn for c, _ in ev})
            for obs in ([], [[cells[0], 0]], [[cells[0], 0], [cells[-1], 1], [cells[0], 2]]):
                fam.append(('catfc_test', dict(test='spatial_test', grid=g, synthetic=syn, observed=obs, source='list')))
            # observed events in cells no synthetic catalog sampled (the 'undersampled' path), with and without events left
            free = [k for k in range(4) if k not in cells]
            if free:
                fam.append(('catfc_test', dict(test='spatial_test', grid=g, synthetic=syn, observed=[[cells[0], 0], [free[0], 1]], source='list')))
                fam.append(('catfc_test', dict(test='spatial_test', grid=g, synthetic=syn, observed=[[free[0], 1]], source='list')))
        return fam

    class ST:
        directed = staticmethod(directed_spatial)
        qualname = CE + 'spatial_test'
        case = 'list-backed catalog forecast with expected rates, apply_filters=%s' % apply_filters
        properties = ('C10',)
        loops = {0: loop}

        def params(c):
            from pyvc.core import Lam
            n0 = c.int('n_cells')
            c.ctx.assume(n0 >= 1)
            c.ctx.ghost['n_cells'] = n0
            j0 = c.int('some_nonempty_catalog')
            c.ctx.ghost['some_nonempty_catalog'] = j0
            rates = c.arr('mean_spatial_rates', 'float64', n=n0)
            E = c.real('expected_cond_count')
            exp = c.obj(None, sum=Lam(lambda *a, **k: E), spatial_counts=Lam(lambda *a, **k: rates))
            fo, J, nE = _list_forecast(c, apply_filters, min_magnitude=c.real('min_mw'), expected_rates=exp,
                                       region=c.obj(None, name='region'))
            obs_counts = c.arr('observed_spatial_counts', 'float64', n=n0)
            obs = c.obj(None, event_count=c.int('n_obs_events'), name='obs', spatial_counts=Lam(lambda *a, **k: obs_counts))
            # the score of a catalog with an event in a cell of rate 0 is -inf (assumed float semantics of the callee): the
            # 'undersampled' path of the test is under contract
            c.ctx.ghost['plh_minus_inf'] = True
            return dict(forecast=fo, observed_catalog=obs, verbose=False, _v=dict(J=J, rates=rates, E=E, obs=obs_counts, n0=n0, j0=j0))

        def requires(c, forecast, observed_catalog, verbose, _v):
            rates, obs, n0 = _v['rates'], _v['obs'], _v['n0']
            i, s_ = z3.Int('i!rq'), z3.Int('s!rq')
            key_ = (lambda k: FILT(SRC(k))) if apply_filters else (lambda k: SRC(k))
            return [observed_catalog.fields['event_count'] >= 0,
                    z3.ForAll([i], z3.Implies(z3.And(0 <= i, i < n0), rates.f((i,)) >= 0), patterns=[rates.f((i,))]),
                    z3.ForAll([i], z3.Implies(z3.And(0 <= i, i < n0), obs.f((i,)) >= 0), patterns=[obs.f((i,))]),
                    # the expected rates are the per-cell mean of the synthetic catalogs' counts (C13): a cell of rate 0 holds no
                    # synthetic event.  (Observed events may lie in such cells: the 'undersampled' path.)
                    z3.ForAll([s_, i], z3.Implies(z3.And(0 <= s_, s_ < _v['J'], 0 <= i, i < n0, rates.f((i,)) == 0), SCF(key_(s_), i) == 0),
                              patterns=[SCF(key_(s_), i)]),
                    # the expected count is the mean size of the synthetic catalogs (what get_expected_rates establishes: C13);
                    # used in the form: a non-zero expected count means some synthetic catalog has an event (L4_sum_ne_zero_exists)
                    z3.Implies(_v['E'] != 0, z3.And(0 <= _v['j0'], _v['j0'] < _v['J'], ST.size_of(_v, _v['j0']) != 0))]

        @staticmethod
        def size_of(_v, j):
            key = (lambda k: FILT(SRC(k))) if apply_filters else (lambda k: SRC(k))
            a = z3.Int('i!lam')
            return SUM(z3.Lambda([a], SCF(key(j), a)), _v['n0'])

        def ensures(c, r, forecast, observed_catalog, verbose, _v):
            J, rates, E, obs, n0 = _v['J'], _v['rates'], _v['E'], _v['obs'], _v['n0']
            key = (lambda k: FILT(SRC(k))) if apply_filters else (lambda k: SRC(k))
            yield 'returns a result object', z3.BoolVal(isinstance(r, Obj))
            n_obs = _rsum(lambda i: obs.f((i,)), n0)
            total_o, lln_o = lnorm_spec(lambda a: obs.f((a,)), rates, n0)
            undefined_o = z3.Or(total_o == 0, n_obs == 0, E == 0)
            st = r.fields.get('status')
            os_ = r.fields.get('observed_statistic')
            q = r.fields.get('quantile')
            yield 'status is a definite string', z3.BoolVal(st in ('normal', 'not-valid', 'undersampled'))
            i_ = z3.Int('i!en')
            unders = z3.Exists([i_], z3.And(0 <= i_, i_ < n0, to_real(obs.f((i_,))) != 0, to_real(rates.f((i_,))) == 0))
            # sums over the cells of non-zero rate (the selection of the 'undersampled' recomputation): L4_sum_over_selection
            nz = lambda a: to_real(rates.f((a,))) != 0
            tot_rate = _rsum(lambda a: rates.f((a,)), n0)
            kept0 = _rsum(lambda a: z3.If(nz(a), to_real(obs.f((a,))), z3.RealVal(0)), n0)
            term = lambda a: z3.If(to_real(obs.f((a,))) != 0, to_real(obs.f((a,))) * LOG(to_real(rates.f((a,))) / tot_rate), z3.RealVal(0))
            lln_kept = _rsum(lambda a: z3.If(nz(a), term(a), z3.RealVal(0)), n0)
            for sel in (c.ctx.ghost.get('selections') or {}).values():
                if not z3.simplify(sel['n'] == n0).eq(z3.BoolVal(True)) and not sel['n'].eq(to_z3(n0)):
                    continue            # the selection that removes NaN entries from the test distribution
                sl, m = sel['sel'], sel['m']
                tr_sel = _rsum(lambda j: rates.f((sl(j),)), m)
                c.ctx.fact(_rsum(lambda j: to_real(obs.f((sl(j),))), m) == kept0, lemma=True)
                c.ctx.fact(tr_sel == _rsum(lambda a: z3.If(nz(a), to_real(rates.f((a,))), z3.RealVal(0)), n0), lemma=True)
                term_s = lambda a: z3.If(to_real(obs.f((a,))) != 0, to_real(obs.f((a,))) * LOG(to_real(rates.f((a,))) / tr_sel), z3.RealVal(0))
                c.ctx.fact(_rsum(lambda j: term_s(sl(j)), m) == _rsum(lambda a: z3.If(nz(a), term_s(a), z3.RealVal(0)), n0), lemma=True)
                c.I.used_lemmas.add('L4.count_over_selection')
                from pyvc.contracts import pointwise_sum_hint
                h = pointwise_sum_hint(c, 'cells of rate 0 add nothing to the total rate', _rsum(lambda a: z3.If(nz(a), to_real(rates.f((a,))), z3.RealVal(0)), n0),
                                       lambda a: to_real(rates.f((a,))), n0)
                if h:
                    yield h
                yield 'hint:the total rate of the selected cells is the total rate', tr_sel == tot_rate
                h = pointwise_sum_hint(c, 'normalising by the total rate of the selected cells or of all cells is the same',
                                       _rsum(lambda a: z3.If(nz(a), term_s(a), z3.RealVal(0)), n0), lambda a: z3.If(nz(a), term(a), z3.RealVal(0)), n0)
                if h:
                    yield h
            if st == 'not-valid':
                yield "'not-valid' only when the statistic of the observation is undefined (no observed events / zero expected count / " \
                      "no observed event left in a cell of non-zero rate)", z3.Or(undefined_o, z3.And(unders, kept0 == 0))
                yield "'not-valid': no numeric quantile", z3.BoolVal(isinstance(q, tuple) and q == (-1, -1))
            else:
                yield 'a quantile is reported only when the observed statistic is defined', z3.Not(undefined_o)
                if st == 'normal':
                    yield 'status normal only if no observed event lies in a cell of rate 0', z3.Not(unders)
                    yield 'observed statistic == normalised spatial pseudo-likelihood of the observed catalog', z3.BoolVal(
                        not isinstance(os_, (MaybeNan, Opaque))) if isinstance(os_, (MaybeNan, Opaque)) else to_real(os_) * total_o == lln_o
                else:
                    yield 'status undersampled only if an observed event lies in a cell of rate 0', unders
                    yield 'events remain in cells of non-zero rate', kept0 != 0
                    yield 'observed statistic == normalised spatial pseudo-likelihood over the cells of non-zero rate', z3.BoolVal(
                        not isinstance(os_, (MaybeNan, Opaque))) if isinstance(os_, (MaybeNan, Opaque)) else to_real(os_) * kept0 == lln_kept
                calls = c.calls(GQ)
                yield 'quantiles come from get_quantiles (one call)', z3.BoolVal(len(calls) == 1)
                if calls:
                    loc, out = calls[0][1], calls[0][2]
                    yield 'quantile == (delta_1, delta_2)', z3.BoolVal(isinstance(q, tuple) and len(q) == 2 and q[0] is out[0] and q[1] is out[1])
                    yield 'evaluated at the observed statistic', z3.BoolVal(loc['obs_count'] is os_)
            td = r.fields.get('test_distribution')
            yield 'test distribution is an array', z3.BoolVal(isinstance(td, Arr) and td.ndim == 1)
            if isinstance(td, Arr):
                # every entry of the reported distribution is a number (NaN entries removed) ...
                nf = getattr(td, 'nan_f', None)
                j = c.ctx.fresh_int('j!sk')
                if nf is not None:
                    yield 'no NaN is left in the test distribution', z3.Implies(z3.And(0 <= j, j < to_z3(td.shape[0])), z3.Not(to_z3(nf((j,)))))
                # ... and their number is the number of synthetic catalogs whose statistic is defined
                t = z3.Int('i!cnt')

                def defined(s):
                    total, _ = lnorm_spec(lambda a: SCF(key(s), a), rates, n0)
                    return z3.Not(z3.Or(total == 0, n_obs == 0, E == 0))
                sels = [g_ for g_ in (c.ctx.ghost.get('selections') or {}).values() if g_['n'].eq(to_z3(J))]
                if sels:
                    from pyvc.contracts import pointwise_count_hint
                    g = sels[-1]
                    for f in c.ctx.facts:
                        if z3.is_eq(f) and f.arg(0).eq(g['m']) and z3.is_app(f.arg(1)) and f.arg(1).decl().name() == 'CNT':
                            h = pointwise_count_hint(c, 'an entry is kept iff the statistic of its catalog is defined', f.arg(1), defined, J)
                            if h:
                                yield h
                if td.ghost.get('selection') is None:
                    # nothing was removed (no entry is NaN): every catalog's statistic is defined - L3b_count_all
                    s0 = c.ctx.fresh_int('s!all')
                    if hasattr(loop, 'ISN'):
                        yield 'hint:loop invariant at an arbitrary catalog', z3.Implies(
                            z3.And(0 <= s0, s0 < J), loop.ISN(s0) == z3.Not(defined(s0)))
                    yield ('hint:no NaN entry: every statistic is defined', z3.Implies(z3.And(0 <= s0, s0 < J), defined(s0)),
                           CNT(z3.Lambda([t], defined(t)), J) == J)
                yield 'one entry per synthetic catalog whose statistic is defined', \
                    to_z3(td.shape[0]) == CNT(z3.Lambda([t], defined(t)), J)
    ST.__name__ = 'CatalogSpatialTest_%s' % apply_filters
    return ST


for _af in (False, True):
    REG.add(spatial_case(_af))


# ---------------------------------------------------------------------------------------------------
# catalog magnitude test: one statistic per NON-EMPTY synthetic catalog (empty ones are skipped), in catalog order
# ---------------------------------------------------------------------------------------------------
from pyvc.lib import LOG10

MCF = z3.Function('magnitude_counts_of', CatSort, z3.IntSort(), z3.RealSort())


@method('catalog', 'magnitude_counts')
def _cat_magnitude_counts(L, cat, *a, **k):
    n1 = L.ctx.ghost['n_mags']
    key = cat.key
    i = z3.Int('i!mc')
    L.ctx.fact(z3.ForAll([i], MCF(key, i) >= 0, patterns=[MCF(key, i)]))
    return Arr((n1,), lambda ix: MCF(key, to_z3(ix[0])), 'float64')


def d_statistic(counts, size, union, n_union, n_obs, n_mags):
    """sum_k (log10(union_k * n_obs / n_union + 1) - log10(counts_k * n_obs / size + 1))^2"""
    def term(k):
        a = LOG10(to_real(union.f((k,))) * (n_obs / n_union) + 1)
        b = LOG10(to_real(counts(k)) * (n_obs / size) + 1)
        return (a - b) * (a - b)
    return _rsum(term, n_mags)


class MagnitudeLoop(PassInv):
    """test_distribution holds the statistics of the non-empty catalogs seen so far, in catalog order: the statistic of
    catalog s (if it has events) sits at index #{t < s : catalog t has events}; the length is #{t < i : catalog t has events}"""

    def havoc(self, I, fr, i, it):
        self.ENT = I.ctx.fresh_fun('entry', z3.IntSort(), z3.RealSort())
        self.LEN = I.ctx.fresh_int('entries')
        ENT = self.ENT
        fr.locals['test_distribution'] = SymList(self.LEN, lambda j: ENT(to_z3(j)), 'test_distribution')
        for nm in ('mag_counts', 'n_events', 'scale', 'catalog_histogram'):
            fr.locals.pop(nm, None)

    def size(self, I, fo, s):
        return _rsum(lambda k: MCF(self.pass_key(fo, s), k), I.ctx.ghost['n_mags'])

    def nonempty_count(self, I, fo, upto):
        t = z3.Int('i!cnt')
        return CNT(z3.Lambda([t], self.size(I, fo, t) != 0), to_z3(upto))

    def stat(self, I, fr, fo, s):
        union = fr.locals['union_histogram']
        return d_statistic(lambda k: MCF(self.pass_key(fo, s), k), self.size(I, fo, s), union,
                           to_real(fr.locals['n_union_events']), to_real(fr.locals['n_obs']), I.ctx.ghost['n_mags'])

    def inv(self, I, fr, i, it):
        yield from PassInv.inv(self, I, fr, i, it)
        fo = self.forecast(it)
        lst = fr.locals['test_distribution']
        n_l = to_z3(lst.n) if isinstance(lst, SymList) else z3.IntVal(len(lst))
        yield 'one entry per non-empty catalog seen', n_l == self.nonempty_count(I, fo, i)
        if isinstance(lst, list):
            return

        def clause(s):
            return z3.Implies(self.size(I, fo, s) != 0, to_real(lst.f(self.nonempty_count(I, fo, s))) == self.stat(I, fr, fo, s))
        if self.mode == 'prove':
            s = I.ctx.fresh_int('s!sk')
            self.sk = s
            cur = simp(to_z3(i) - 1)
            yield 'entries of earlier catalogs are kept in place', z3.Implies(z3.And(0 <= s, s < cur), clause(s))
            yield 'a non-empty catalog appends its statistic', z3.Implies(cur >= 0, clause(cur))
        else:
            s = z3.Int('s!inv')
            yield 'spec', z3.ForAll([s], z3.Implies(z3.And(0 <= s, s < to_z3(i)), clause(s)))

    def at_exit(self, I, fr, it):
        PassInv.at_exit(self, I, fr, it)
        # L3b_count_pos at the catalog the precondition names: the list is not empty
        fo = self.forecast(it)
        J = to_z3(fo.fields['n_cat'])
        j0 = I.ctx.ghost.get('some_nonempty_catalog')
        if j0 is not None:
            I.ctx.fact(z3.Implies(z3.And(0 <= j0, j0 < J, self.size(I, fo, j0) != 0), self.nonempty_count(I, fo, J) >= 1), lemma=True)
            I.used_lemmas.add('L3.count_pos')

    def step_lemmas(self, I, fr, i, it):
        fo = self.forecast(it)
        t = z3.Int('i!cnt')
        B = z3.Lambda([t], self.size(I, fo, t) != 0)
        # L0_count_unfold at i, L3_count_prefix_lt / _mono for the goal's catalog s
        yield CNT(B, to_z3(i) + 1) == CNT(B, to_z3(i)) + z3.If(self.size(I, fo, i) != 0, 1, 0)
        s = self.sk
        yield z3.Implies(z3.And(0 <= s, s < to_z3(i), self.size(I, fo, s) != 0), CNT(B, s) < CNT(B, to_z3(i)))
        I.used_lemmas.add('L0.count_unfold')
        I.used_lemmas.add('L3.count_prefix')


def magnitude_case(apply_filters):
    loop = MagnitudeLoop()

    class MT:
        directed = directed_catfc('magnitude_test')
        qualname = CE + 'magnitude_test'
        case = 'list-backed catalog forecast with expected rates, apply_filters=%s' % apply_filters
        properties = ('C10',)
        loops = {0: loop}

        def params(c):
            from pyvc.core import Lam
            n1 = c.int('n_mags')
            c.ctx.assume(n1 >= 1)
            c.ctx.ghost['n_mags'] = n1
            j0 = c.int('some_nonempty_catalog')
            c.ctx.ghost['some_nonempty_catalog'] = j0
            union = c.arr('union_magnitude_histogram', 'float64', n=n1)
            mags = c.arr('magnitudes', 'float64', n=n1)
            exp = c.obj(None, magnitude_counts=Lam(lambda *a, **k: union))
            fo, J, nE = _list_forecast(c, apply_filters, min_magnitude=c.real('min_mw'), expected_rates=exp,
                                       region=c.obj(None, name='region', magnitudes=mags))
            obs_hist = c.arr('observed_magnitude_histogram', 'float64', n=n1)
            obs = c.obj(None, event_count=c.int('n_obs_events'), name='obs', magnitude_counts=Lam(lambda *a, **k: obs_hist))
            return dict(forecast=fo, observed_catalog=obs, verbose=False, _v=dict(J=J, union=union, obs=obs_hist, n1=n1, j0=j0))

        def requires(c, forecast, observed_catalog, verbose, _v):
            union, obs, n1, J, j0 = _v['union'], _v['obs'], _v['n1'], _v['J'], _v['j0']
            i = z3.Int('i!rq')
            key = (lambda k: FILT(SRC(k))) if apply_filters else (lambda k: SRC(k))
            size_j0 = _rsum(lambda k: MCF(key(j0), k), n1)
            return [observed_catalog.fields['event_count'] >= 0,
                    z3.ForAll([i], z3.Implies(z3.And(0 <= i, i < n1), union.f((i,)) >= 0), patterns=[union.f((i,))]),
                    z3.ForAll([i], z3.Implies(z3.And(0 <= i, i < n1), obs.f((i,)) >= 0), patterns=[obs.f((i,))]),
                    # the union histogram is the mean of the synthetic histograms (C13): it is not empty, and then some
                    # synthetic catalog has an event
                    _rsum(lambda k: union.f((k,)), n1) > 0, 0 <= j0, j0 < J, size_j0 != 0,
                    # a non-empty observed catalog has a non-empty histogram (C03: total == number of events)
                    z3.Implies(observed_catalog.fields['event_count'] > 0, _rsum(lambda k: obs.f((k,)), n1) > 0)]

        def ensures(c, r, forecast, observed_catalog, verbose, _v):
            union, obs, n1, J, j0 = _v['union'], _v['obs'], _v['n1'], _v['J'], _v['j0']
            key = (lambda k: FILT(SRC(k))) if apply_filters else (lambda k: SRC(k))
            n_ev = observed_catalog.fields['event_count']
            yield 'returns a result object', z3.BoolVal(isinstance(r, Obj))
            st, os_, q, td = (r.fields.get(k) for k in ('status', 'observed_statistic', 'quantile', 'test_distribution'))
            if st == 'not-valid':
                yield "'not-valid' only for an empty observed catalog", n_ev == 0
                yield "'not-valid': no statistic and no quantile", z3.BoolVal(os_ is None and q == (None, None))
                return
            yield 'status normal', z3.BoolVal(st == 'normal')
            yield 'a statistic is reported only for a non-empty observed catalog', n_ev != 0
            n_obs = _rsum(lambda k: obs.f((k,)), n1)
            n_union = _rsum(lambda k: union.f((k,)), n1)
            def obs_term(k):
                a = LOG10(to_real(union.f((k,))) * (n_obs / n_union) + 1)
                b = LOG10(to_real(obs.f((k,))) + 1)
                return (a - b) * (a - b)
            yield 'observed statistic == sum_k (log10(scaled union_k + 1) - log10(observed_k + 1))^2', \
                to_real(os_) == _rsum(obs_term, n1)
            size = lambda s: _rsum(lambda k: MCF(key(s), k), n1)
            t = z3.Int('i!cnt')
            nonempty_before = lambda s: CNT(z3.Lambda([t], size(t) != 0), to_z3(s))
            yield 'test distribution is a list', z3.BoolVal(isinstance(td, SymList))
            if isinstance(td, SymList):
                yield 'one entry per synthetic catalog that has events (catalogs without events are skipped)', \
                    to_z3(td.n) == nonempty_before(J)
                s = c.ctx.fresh_int('s!sk')
                yield 'the entry of a non-empty catalog is its statistic, entries are in catalog order', z3.Implies(
                    z3.And(0 <= s, s < J, size(s) != 0),
                    to_real(td.f(nonempty_before(s))) == d_statistic(lambda k: MCF(key(s), k), size(s), union, n_union, n_obs, n1))
            calls = c.calls(GQ)
            yield 'quantiles come from get_quantiles (one call)', z3.BoolVal(len(calls) == 1)
            if calls:
                loc, out = calls[0][1], calls[0][2]
                yield 'quantile == (delta_1, delta_2)', z3.BoolVal(isinstance(q, tuple) and len(q) == 2 and q[0] is out[0] and q[1] is out[1])
                yield 'evaluated at the observed statistic', z3.BoolVal(loc['obs_count'] is os_)
    MT.__name__ = 'CatalogMagnitudeTest_%s' % apply_filters
    return MT


for _af in (False, True):
    REG.add(magnitude_case(_af))


# ---------------------------------------------------------------------------------------------------
# catalog pseudo-likelihood test
# ---------------------------------------------------------------------------------------------------
def plh_spec(counts, rates, E, n_cells):
    """pseudo-likelihood of a gridded catalog: -E without events, else sum_{g>0} g*log(rate) - E"""
    total = _rsum(counts, n_cells)
    ll = _rsum(lambda i: z3.If(to_real(counts(i)) != 0, to_real(counts(i)) * LOG(to_real(rates.f((i,)))), z3.RealVal(0)), n_cells)
    return z3.If(total == 0, -E, ll - E)


class PLLoop(PassInv):
    def havoc(self, I, fr, i, it):
        self.VAL = I.ctx.fresh_fun('entry_value', z3.IntSort(), z3.RealSort())
        VAL = self.VAL
        fr.locals['test_distribution'] = SymList(to_z3(i), lambda s: VAL(to_z3(s)), 'test_distribution')
        for nm in ('gridded_cat', 'plh', '_'):
            fr.locals.pop(nm, None)

    def inv(self, I, fr, i, it):
        yield from PassInv.inv(self, I, fr, i, it)
        fo = self.forecast(it)
        lst = fr.locals['test_distribution']
        n_l = to_z3(lst.n) if isinstance(lst, SymList) else z3.IntVal(len(lst))
        yield 'one entry per catalog seen', n_l == to_z3(i)
        if isinstance(lst, list):
            return
        rates, E = fr.locals['forecast_mean_spatial_rates'], to_real(fr.locals['expected_cond_count'])
        n_cells = I.ctx.ghost['n_cells']
        clause = lambda s: to_real(lst.f(s)) == plh_spec(lambda a: SCF(self.pass_key(fo, s), a), rates, E, n_cells)
        if self.mode == 'prove':
            s = I.ctx.fresh_int('s!sk')
            cur = simp(to_z3(i) - 1)
            yield 'earlier entries are kept', z3.Implies(z3.And(0 <= s, s < cur), clause(s))
            yield 'the new entry is the pseudo-likelihood of its catalog', z3.Implies(cur >= 0, clause(cur))
        else:
            s = z3.Int('s!inv')
            yield 'spec', z3.ForAll([s], z3.Implies(z3.And(0 <= s, s < to_z3(i)), clause(s)), patterns=[self.VAL(s)])


def pl_case(apply_filters):
    loop = PLLoop()

    class PT:
        directed = directed_catfc('pseudolikelihood_test')
        qualname = CE + 'pseudolikelihood_test'
        case = 'list-backed catalog forecast with expected rates, apply_filters=%s' % apply_filters
        properties = ('C10',)
        loops = {0: loop}

        def params(c):
            from pyvc.core import Lam
            n0 = c.int('n_cells')
            c.ctx.assume(n0 >= 1)
            c.ctx.ghost['n_cells'] = n0
            rates = c.arr('mean_spatial_rates', 'float64', n=n0)
            E = c.real('expected_cond_count')
            exp = c.obj(None, sum=Lam(lambda *a, **k: E), spatial_counts=Lam(lambda *a, **k: rates))
            fo, J, nE = _list_forecast(c, apply_filters, min_magnitude=c.real('min_mw'), expected_rates=exp,
                                       region=c.obj(None, name='region'))
            obs_counts = c.arr('observed_spatial_counts', 'float64', n=n0)
            obs = c.obj(None, event_count=c.int('n_obs_events'), name='obs', spatial_counts=Lam(lambda *a, **k: obs_counts))
            # the score of a catalog with an event in a cell of rate 0 is -inf (assumed float semantics of the callee): the
            # 'undersampled' path of the test is under contract
            c.ctx.ghost['plh_minus_inf'] = True
            return dict(forecast=fo, observed_catalog=obs, verbose=False, _v=dict(J=J, rates=rates, E=E, obs=obs_counts, n0=n0))

        def requires(c, forecast, observed_catalog, verbose, _v):
            rates, obs, n0, J_ = _v['rates'], _v['obs'], _v['n0'], _v['J']
            i, s_ = z3.Int('i!rq'), z3.Int('s!rq')
            key_ = (lambda k: FILT(SRC(k))) if apply_filters else (lambda k: SRC(k))
            n_ev = observed_catalog.fields['event_count']
            return [n_ev >= 0,
                    z3.ForAll([i], z3.Implies(z3.And(0 <= i, i < n0), rates.f((i,)) >= 0), patterns=[rates.f((i,))]),
                    z3.ForAll([i], z3.Implies(z3.And(0 <= i, i < n0), obs.f((i,)) >= 0), patterns=[obs.f((i,))]),
                    # the expected rates are the per-cell mean of the synthetic catalogs' counts (C13): a cell of rate 0 holds no
                    # synthetic event.  (Observed events may lie in such cells: the 'undersampled' path.)
                    z3.ForAll([s_, i], z3.Implies(z3.And(0 <= s_, s_ < J_, 0 <= i, i < n0, rates.f((i,)) == 0), SCF(key_(s_), i) == 0),
                              patterns=[SCF(key_(s_), i)]),
                    # gridding counts every event once (C03): a non-empty observed catalog has a non-empty grid
                    z3.Implies(n_ev > 0, _rsum(lambda k: obs.f((k,)), n0) > 0)]

        def ensures(c, r, forecast, observed_catalog, verbose, _v):
            J, rates, E, obs, n0 = _v['J'], _v['rates'], _v['E'], _v['obs'], _v['n0']
            key = (lambda k: FILT(SRC(k))) if apply_filters else (lambda k: SRC(k))
            n_ev = observed_catalog.fields['event_count']
            if r is None:
                i = z3.Int('i!en')
                unders = z3.Exists([i], z3.And(0 <= i, i < n0, to_real(obs.f((i,))) != 0, to_real(rates.f((i,))) == 0))
                kept0 = _rsum(lambda a: z3.If(to_real(rates.f((a,))) != 0, to_real(obs.f((a,))), z3.RealVal(0)), n0)
                for sel in (c.ctx.ghost.get('selections') or {}).values():
                    sl, m = sel['sel'], sel['m']
                    c.ctx.fact(_rsum(lambda j: to_real(obs.f((sl(j),))), m) == kept0, lemma=True)
                    c.I.used_lemmas.add('L4.count_over_selection')
                yield 'no result only for an empty observed catalog, or when every observed event lies in a cell of rate 0', \
                    z3.Or(n_ev == 0, z3.And(unders, kept0 == 0))
                return
            yield 'returns a result object', z3.BoolVal(isinstance(r, Obj))
            yield 'a result is returned only for a non-empty observed catalog', n_ev != 0
            st, os_, q, td = (r.fields.get(k) for k in ('status', 'observed_statistic', 'quantile', 'test_distribution'))
            i = z3.Int('i!en')
            unders = z3.Exists([i], z3.And(0 <= i, i < n0, to_real(obs.f((i,))) != 0, to_real(rates.f((i,))) == 0))
            yield 'status is normal or undersampled', z3.BoolVal(st in ('normal', 'undersampled'))
            if st == 'normal':
                yield 'status normal only if no observed event lies in a cell of rate 0', z3.Not(unders)
                yield 'observed statistic == pseudo-likelihood of the observed catalog', \
                    to_real(os_) == plh_spec(lambda a: obs.f((a,)), rates, E, n0)
            elif st == 'undersampled':
                yield 'status undersampled only if an observed event lies in a cell of rate 0', unders
                # the statistic is recomputed over the cells of non-zero rate (sum over the mask selection == masked sum over all
                # cells: L4_sum_over_selection), with the original expected count
                kept = lambda a: z3.If(to_real(rates.f((a,))) != 0, to_real(obs.f((a,))), z3.RealVal(0))
                term = lambda a: z3.If(to_real(obs.f((a,))) != 0, to_real(obs.f((a,))) * LOG(to_real(rates.f((a,)))), z3.RealVal(0))
                for sel in (c.ctx.ghost.get('selections') or {}).values():
                    sl, m = sel['sel'], sel['m']
                    for fn in (term, lambda a: to_real(obs.f((a,)))):
                        c.ctx.fact(_rsum(lambda j: fn(sl(j)), m) == _rsum(lambda a: z3.If(to_real(rates.f((a,))) != 0, fn(a), z3.RealVal(0)), n0), lemma=True)
                    c.I.used_lemmas.add('L4.count_over_selection')
                yield 'a result is returned only if events remain in cells of non-zero rate', _rsum(kept, n0) != 0
                yield 'observed statistic == pseudo-likelihood over the cells of non-zero rate (expected count unchanged)', \
                    to_real(os_) == _rsum(lambda a: z3.If(to_real(rates.f((a,))) != 0, term(a), z3.RealVal(0)), n0) - E
            yield 'test distribution is an array', z3.BoolVal(isinstance(td, Arr) and td.ndim == 1)
            if isinstance(td, Arr):
                yield 'one entry per synthetic catalog', to_z3(td.shape[0]) == J
                s = c.ctx.fresh_int('s!sk')
                yield 'entry s == pseudo-likelihood of synthetic catalog s', z3.Implies(
                    z3.And(0 <= s, s < J), to_real(td.f((s,))) == plh_spec(lambda a: SCF(key(s), a), rates, E, n0))
            calls = c.calls(GQ)
            yield 'quantiles come from get_quantiles (one call)', z3.BoolVal(len(calls) == 1)
            if calls:
                loc, out = calls[0][1], calls[0][2]
                yield 'quantile == (delta_1, delta_2)', z3.BoolVal(isinstance(q, tuple) and len(q) == 2 and q[0] is out[0] and q[1] is out[1])
                yield 'evaluated at the observed statistic', z3.BoolVal(loc['obs_count'] is os_)
    PT.__name__ = 'CatalogPLTest_%s' % apply_filters
    return PT


for _af in (False, True):
    REG.add(pl_case(_af))


# ---------------------------------------------------------------------------------------------------
# calibration_test: the quantiles of the valid results, in order, go to the Kolmogorov-Smirnov test against the uniform law
# ---------------------------------------------------------------------------------------------------
from pyvc.contracts import LoopInv      # noqa: E402

NOTVALID = z3.Function('result_is_not_valid', z3.IntSort(), z3.BoolSort())
QD1 = z3.Function('result_delta_1', z3.IntSort(), z3.RealSort())
QD2 = z3.Function('result_delta_2', z3.IntSort(), z3.RealSort())


def _result_record(t):
    """abstract evaluation result number t: status (compared with 'not-valid' only), quantile (delta_1, delta_2), name"""
    t = to_z3(t)

    def eq_value(I, other):
        if other == 'not-valid':
            return NOTVALID(t)
        raise Unsupported('status compared with %r' % (other,))
    from pyvc.core import Unsupported
    return Opaque('evaluation_result', idx=t, status=Opaque('status', eq_value=eq_value), quantile=(QD1(t), QD2(t)),
                  result_name=Opaque('name_of', idx=t))


class CalibLoop(LoopInv):
    """quantiles holds the chosen quantile of the valid results seen so far, in order: the entry of result s (if valid) sits at index
    #{t < s : result t valid}"""

    def trips(self, I, it):
        return to_z3(it.n)

    def item(self, I, it, i):
        return it.f(to_z3(i))

    def havoc(self, I, fr, i, it):
        self.ENT = I.ctx.fresh_fun('entry', z3.IntSort(), z3.RealSort())
        self.LEN = I.ctx.fresh_int('entries')
        ENT = self.ENT
        fr.locals['quantiles'] = SymList(self.LEN, lambda j: ENT(to_z3(j)), 'quantiles')
        fr.locals.pop('result', None)

    @staticmethod
    def valid_count(upto):
        t = z3.Int('i!cnt')
        return CNT(z3.Lambda([t], z3.Not(NOTVALID(t))), to_z3(upto))

    def inv(self, I, fr, i, it):
        lst = fr.locals['quantiles']
        use_d1 = I.ctx.ghost['calib_delta_1']
        Q = QD1 if use_d1 else QD2
        n_l = to_z3(lst.n) if isinstance(lst, SymList) else z3.IntVal(len(lst))
        yield 'one entry per valid result seen', n_l == self.valid_count(i)
        if isinstance(lst, list):
            return

        def clause(s):
            return z3.Implies(z3.Not(NOTVALID(s)), to_real(lst.f(self.valid_count(s))) == Q(s))
        if self.mode == 'prove':
            s = I.ctx.fresh_int('s!sk')
            self.sk = s
            cur = simp(to_z3(i) - 1)
            yield 'entries of earlier results are kept in place', z3.Implies(z3.And(0 <= s, s < cur), clause(s))
            yield 'a valid result appends its chosen quantile', z3.Implies(cur >= 0, clause(cur))
        else:
            s = z3.Int('s!inv')
            yield 'spec', z3.ForAll([s], z3.Implies(z3.And(0 <= s, s < to_z3(i)), clause(s)))

    def step_lemmas(self, I, fr, i, it):
        t = z3.Int('i!cnt')
        B = z3.Lambda([t], z3.Not(NOTVALID(t)))
        yield CNT(B, to_z3(i) + 1) == CNT(B, to_z3(i)) + z3.If(z3.Not(NOTVALID(to_z3(i))), 1, 0)
        s = self.sk
        yield z3.Implies(z3.And(0 <= s, s < to_z3(i), z3.Not(NOTVALID(s))), CNT(B, s) < CNT(B, to_z3(i)))
        I.used_lemmas.add('L0.count_unfold')
        I.used_lemmas.add('L3.count_prefix')


def calibration_case(delta_1):
    class CT:
        qualname = CE + 'calibration_test'
        case = 'list of any number of evaluation results, delta_1=%s' % delta_1
        properties = ('C10',)
        loops = {0: CalibLoop()}

        def params(c):
            from pyvc.core import Lam
            n = c.int('n_results')
            c.ctx.assume(n >= 1)
            c.ctx.ghost['calib_delta_1'] = delta_1
            seen = []

            def kstest(sample, law, *a, **k):
                ret = (c.ctx.fresh_real('ks_statistic'), c.ctx.fresh_real('ks_p_value'))
                seen.append((sample, law, a, k, ret))
                return ret
            c.ctx.ghost['global_overrides'] = {('csep.core.catalog_evaluations', 'scipy'): Opaque('scipy', stats=Opaque('scipy.stats', kstest=Lam(kstest, 'kstest')))}
            first = _result_record(0)
            first.min_mw, first.obs_catalog_repr, first.sim_name, first.obs_name = (Opaque(k) for k in ('min_mw0', 'repr0', 'sim0', 'obs0'))
            results = SymList(n, lambda t: first if simp(to_z3(t) == 0) is True else _result_record(t), 'evaluation_results')
            return dict(evaluation_results=results, delta_1=delta_1, _n=n, _seen=seen, _first=first)

        def ensures(c, r, evaluation_results, delta_1, _n, _seen, _first):
            yield 'returns a result object', z3.BoolVal(isinstance(r, Obj))
            yield 'one Kolmogorov-Smirnov test against the uniform law', z3.BoolVal(len(_seen) == 1 and _seen[0][1] == 'uniform' and not _seen[0][2] and not _seen[0][3])
            if len(_seen) != 1:
                return
            sample = _seen[0][0]
            Q = QD1 if delta_1 else QD2
            ok = isinstance(sample, SymList)
            yield 'the sample is the list of quantiles', z3.BoolVal(ok)
            if ok:
                yield 'one quantile per valid result (not-valid results are skipped)', to_z3(sample.n) == CalibLoop.valid_count(_n)
                s = c.ctx.fresh_int('s!sk')
                t = z3.Int('i!cnt')
                B = z3.Lambda([t], z3.Not(NOTVALID(t)))
                c.ctx.fact(z3.Implies(z3.And(0 <= s, s < _n, z3.Not(NOTVALID(s))), CNT(B, s) < CNT(B, _n)), lemma=True)       # L3_count_prefix_lt
                c.I.used_lemmas.add('L3.count_prefix')
                yield 'the quantile of valid result s (delta_1 if asked for, else delta_2) sits at position #{valid results before s}', z3.Implies(
                    z3.And(0 <= s, s < _n, z3.Not(NOTVALID(s))), to_real(sample.f(CalibLoop.valid_count(s))) == Q(s))
            f = r.fields
            yield 'statistic and p-value of the KS test are the observed statistic and the quantile; the sample is the test distribution', z3.BoolVal(
                f.get('observed_statistic') is _seen[0][4][0] and f.get('quantile') is _seen[0][4][1] and f.get('test_distribution') is sample
                and f.get('status') == 'normal')
            yield 'names and minimum magnitude are those of the first result', z3.BoolVal(
                f.get('min_mw') is _first.min_mw and f.get('obs_catalog_repr') is _first.obs_catalog_repr and f.get('sim_name') is _first.sim_name
                and f.get('obs_name') is _first.obs_name)

        def raises(c, exc, **kw):
            return None
    CT.__name__ = 'CalibrationTest_%s' % delta_1
    return CT


for _d1 in (False, True):
    REG.add(calibration_case(_d1))


# ---------------------------------------------------------------------------------------------------
# resampled_magnitude_test: union histogram over a first pass, one resampled catalog of exactly N events per synthetic catalog
# ---------------------------------------------------------------------------------------------------
from pyvc.models_sci import RNG, RNG0, SEEDED, RNG_NEXT, CHOICE_IDX      # noqa: E402

RMT = CE + 'resampled_magnitude_test'
RSTATE = z3.Function('rng_state_before_resample', z3.IntSort(), RNG)      # generator state when the i-th resample is drawn


def union_of(I, fo, loopinv, k, upto):
    j = z3.Int('i!lam')
    return SUM(z3.Lambda([j], MCF(loopinv.pass_key(fo, j), to_z3(k))), to_z3(upto))


class UnionLoop(PassInv):
    """first pass: union_histogram[k] == sum of the magnitude counts of the catalogs seen so far"""

    def havoc(self, I, fr, i, it):
        n1 = I.ctx.ghost['n_mags']
        self.U = I.ctx.fresh_fun('union_so_far', z3.IntSort(), z3.RealSort())
        U = self.U
        fr.locals['union_histogram'] = Arr((n1,), lambda ix: U(to_z3(ix[0])), 'float64', label='union_histogram')
        fr.locals.pop('cat', None)
        fr.locals.pop('j', None)

    def inv(self, I, fr, i, it):
        yield from PassInv.inv(self, I, fr, i, it)
        fo = self.forecast(it)
        n1 = I.ctx.ghost['n_mags']
        uh = fr.locals['union_histogram']
        if self.mode == 'prove':
            k = I.ctx.fresh_int('k!sk')
            self.sk = k
            yield 'union_histogram[k] == sum over the catalogs seen so far of their count in bin k', z3.Implies(
                z3.And(0 <= k, k < n1), to_real(uh.f((k,))) == union_of(I, fo, self, k, i))
        else:
            k = z3.Int('k!inv')
            yield 'spec', z3.ForAll([k], z3.Implies(z3.And(0 <= k, k < n1), to_real(uh.f((k,))) == union_of(I, fo, self, k, i)),
                                    patterns=[self.U(k)])

    def step_lemmas(self, I, fr, i, it):
        fo = self.forecast(it)
        k = self.sk
        I.used_lemmas.add('L0.count_unfold')
        yield union_of(I, fo, self, k, to_z3(i) + 1) == union_of(I, fo, self, k, i) + MCF(self.pass_key(fo, i), k)


def resample_value(I, state, e):
    """magnitude of the e-th event of the catalog resampled in generator state `state`: a bin centre drawn from the union histogram"""
    g = I.ctx.ghost['rmt']
    return to_real(g['mags'].f((CHOICE_IDX(state, e),))) + g['half']()


def resample_hist(I, state, k):
    g = I.ctx.ghost['rmt']
    e = z3.Int('i!cnt')
    n1, m = g['n1'], g['N']
    v = resample_value(I, state, e)
    lo = to_real(g['mags'].f((k,)))
    hi = z3.If(to_z3(k) == n1 - 1, g['max']() + 10, to_real(g['mags'].f((simp(to_z3(k) + 1),))))
    return CNT(z3.Lambda([e], z3.And(lo <= v, z3.If(to_z3(k) == n1 - 1, v <= hi, v < hi))), m)


class ResampleLoop(PassInv):
    """second pass: one statistic per synthetic catalog, that of a catalog of exactly N events resampled from the union histogram in
    the generator state RSTATE(i); the generator advances by one draw call per catalog"""

    def havoc(self, I, fr, i, it):
        self.VAL = I.ctx.fresh_fun('entry_value', z3.IntSort(), z3.RealSort())
        VAL = self.VAL
        fr.locals['test_distribution'] = SymList(to_z3(i), lambda s: VAL(to_z3(s)), 'test_distribution')
        I.ctx.ghost['rng'] = RSTATE(to_z3(i))
        for nm in ('mag_values', 'extended_mag_max', 'mag_counts', 'tmp', 'n_events', 'scale', 'catalog_histogram', 'catalog', 'i'):
            fr.locals.pop(nm, None)

    def stat(self, I, fr, s):
        g = I.ctx.ghost['rmt']
        n1 = g['n1']
        sc = fr.locals['scaled_union_histogram']

        def term(k):
            a = LOG10(to_real(sc.f((k,))) + 1)
            b = LOG10(z3.ToReal(resample_hist(I, RSTATE(to_z3(s)), k)) + 1)
            return (a - b) * (a - b)
        return _rsum(term, n1)

    def proof_steps(self, I, fr, i):
        """at the end of an iteration: the histogram of this iteration's resample, as the code computed it, is the spec histogram"""
        from pyvc.contracts import pointwise_sum_hint
        hs = I.ctx.ghost.get('histograms') or []
        if not hs:
            return
        H = hs[-1]
        g = I.ctx.ghost['rmt']
        n1, N = g['n1'], g['N']
        m = H['m']
        state = RSTATE(simp(to_z3(i) - 1))
        e, k = I.ctx.fresh_int('e!sk'), I.ctx.fresh_int('k!sk')
        inside_lam = H['inside'].arg(0)
        # L3b_count_all: every resampled magnitude (a bin centre) lies inside [first edge, largest edge + 10]
        yield ('hint:every resampled magnitude lies inside the histogram range', z3.Implies(z3.And(0 <= e, e < m), z3.simplify(z3.Select(inside_lam, e))),
               H['inside'] == m)
        I.used_lemmas.add('L3.partition_count')
        yield 'hint:the resampled catalog holds exactly N events', z3.And(m == N, H['total'] == N)
        # L4_count_congr, for every bin: the count the code computes is the count of the spec
        ee = z3.Int('i!cnt')
        v = resample_value(I, state, e)
        lo = to_real(g['mags'].f((k,)))
        hi = z3.If(k == n1 - 1, g['max']() + 10, to_real(g['mags'].f((k + 1,))))
        spec_in = z3.And(lo <= v, z3.If(k == n1 - 1, v <= hi, v < hi))
        kk = z3.Int('k!cc')
        q = I.ctx.fresh_int('q!pw')          # the bin at which the summands are compared below
        at = lambda b: z3.Implies(z3.And(0 <= b, b < n1), CNT(z3.Lambda([ee], H['inbin'](b, ee)), m) == resample_hist(I, state, b))
        yield ('hint:bin by bin the code counts the events of the spec histogram',
               z3.Implies(z3.And(0 <= k, k < n1, 0 <= e, e < m), H['inbin'](k, e) == spec_in),
               z3.And(z3.ForAll([kk], at(kk), patterns=[to_z3(g['mags'].f((kk,)))]), at(q),
                      z3.Implies(z3.And(0 <= q, q < n1), z3.simplify(CNT(z3.Lambda([ee], H['inbin'](q, ee)), m)) == resample_hist(I, state, q))))
        I.used_lemmas.add('L4.count_congruence')
        if fr.locals.get('scale') is not None:
            yield 'hint:the resampled histogram is not rescaled (it holds exactly N events)', to_real(fr.locals['scale']) == 1
        lst = fr.locals['test_distribution']
        last = getattr(lst, 'last_append', None)
        if last is not None and z3.is_expr(last[1]):
            shim = type('C', (), {'ctx': I.ctx, 'I': I})()
            sc = fr.locals['scaled_union_histogram']

            def term(q):
                a = LOG10(to_real(sc.f((q,))) + 1)
                b = LOG10(z3.ToReal(resample_hist(I, state, q)) + 1)
                return (a - b) * (a - b)
            entry = last[1]
            if z3.is_app(entry) and entry.decl().name() == 'SUM':
                # pointwise step by rewriting: in the code's summand at a fresh bin q the computed count is replaced by the spec
                # count (previous step) and the scale factor by 1 (previous step); what is left is compared with the spec summand
                rng_ = z3.And(0 <= q, q < n1)
                G = z3.simplify(z3.Select(entry.arg(0), q))
                code_cnt = z3.simplify(CNT(z3.Lambda([ee], H['inbin'](q, ee)), m))
                pairs = [(code_cnt, resample_hist(I, state, q))]
                if fr.locals.get('scale') is not None and z3.is_expr(fr.locals['scale']):
                    pairs.append((z3.simplify(fr.locals['scale']), z3.RealVal(1)))
                    pairs.append((fr.locals['scale'], z3.RealVal(1)))
                G2 = z3.substitute(G, *pairs)
                yield 'hint:count and scale at an arbitrary bin', z3.Implies(rng_, z3.And(*[a_ == b_ for a_, b_ in pairs]))
                yield 'hint:the code summand rewritten with the spec count and scale 1', z3.Implies(rng_, G == G2)
                yield ('hint:the summands of the statistic agree bin by bin', z3.Implies(rng_, G == term(q)),
                       entry == _rsum(term, n1))
                I.used_lemmas.add('L4.sum_congruence')

    def inv(self, I, fr, i, it):
        yield from PassInv.inv(self, I, fr, i, it)
        if self.mode == 'prove' and simp(to_z3(i) == 0) is not True:
            yield from self.proof_steps(I, fr, i)
        lst = fr.locals['test_distribution']
        n_l = to_z3(lst.n) if isinstance(lst, SymList) else z3.IntVal(len(lst))
        yield 'one entry per catalog seen (a resampled catalog is never empty)', n_l == to_z3(i)
        rng = I.ctx.ghost.get('rng', RNG0)
        yield 'the generator has advanced by one draw call per catalog', rng == RSTATE(to_z3(i))
        if isinstance(lst, list):
            return
        clause = lambda s: to_real(lst.f(s)) == self.stat(I, fr, s)
        if self.mode == 'prove':
            s = I.ctx.fresh_int('s!sk')
            cur = simp(to_z3(i) - 1)
            yield 'earlier entries are kept', z3.Implies(z3.And(0 <= s, s < cur), clause(s))
            yield 'the new entry is the statistic of the catalog resampled in this iteration', z3.Implies(cur >= 0, clause(cur))
        else:
            s = z3.Int('s!inv')
            yield 'spec', z3.ForAll([s], z3.Implies(z3.And(0 <= s, s < to_z3(i)), clause(s)), patterns=[self.VAL(s)])


def _find_decl_prefix(term, prefix, out, seen=None):
    seen = set() if seen is None else seen
    if term.get_id() in seen:
        return
    seen.add(term.get_id())
    if z3.is_app(term):
        if term.decl().name().startswith(prefix):
            out.append(term)
        for ch in term.children():
            _find_decl_prefix(ch, prefix, out, seen)
    elif z3.is_quantifier(term):
        _find_decl_prefix(term.body(), prefix, out, seen)


def resampled_case(apply_filters, seeded):
    class RT:
        directed = directed_catfc('resampled_magnitude_test')
        qualname = RMT
        case = 'list-backed catalog forecast, apply_filters=%s, %s' % (apply_filters, 'seed given' if seeded else 'seed=None')
        properties = ('C10',)
        loops = {0: UnionLoop(), 1: ResampleLoop()}

        def params(c):
            from pyvc.core import Lam
            n1 = c.int('n_mags')
            c.ctx.assume(n1 >= 2)
            c.ctx.ghost['n_mags'] = n1
            mags = c.arr('magnitudes', 'float64', n=n1)
            N = c.int('n_observed')
            fo, J, nE = _list_forecast(c, apply_filters, min_magnitude=c.real('min_mw'), expected_rates=c.obj(None, name='expected rates'),
                                       region=c.obj(None, name='region', magnitudes=mags))
            obs_hist = c.arr('observed_magnitude_histogram', 'float64', n=n1)
            obs = c.obj(None, event_count=c.int('n_obs_events'), name='obs', magnitude_counts=Lam(lambda *a, **k: obs_hist),
                        region=c.obj(None, name='obs region', magnitudes=mags))
            seed = c.int('seed') if seeded else None
            half = lambda: (to_real(mags.f((z3.IntVal(1),))) - to_real(mags.f((z3.IntVal(0),)))) / 2
            mx = c.ctx.fresh_real('largest_magnitude_edge')
            c.ctx.ghost['rmt'] = dict(mags=mags, n1=n1, N=N, half=half, max=lambda: mx)
            return dict(forecast=fo, observed_catalog=obs, verbose=False, seed=seed,
                        _v=dict(J=J, obs=obs_hist, n1=n1, mags=mags, N=N, mx=mx))

        def requires(c, forecast, observed_catalog, verbose, seed, _v):
            obs, n1, J, mags, N, mx = _v['obs'], _v['n1'], _v['J'], _v['mags'], _v['N'], _v['mx']
            i, a, b, s_ = z3.Int('i!rq'), z3.Int('a!rq'), z3.Int('b!rq'), z3.Int('s!rq')
            key = (lambda k: FILT(SRC(k))) if apply_filters else (lambda k: SRC(k))
            st0 = SEEDED(to_z3(seed)) if seed is not None else RNG0
            return [observed_catalog.fields['event_count'] >= 0,
                    z3.ForAll([i], z3.Implies(z3.And(0 <= i, i < n1), obs.f((i,)) >= 0), patterns=[obs.f((i,))]),
                    # the gridded observation holds whole numbers: N events in all, N >= 1 exactly when the catalog is not empty (C03)
                    _rsum(lambda k: obs.f((k,)), n1) == z3.ToReal(N), N >= 0, (N > 0) == (observed_catalog.fields['event_count'] > 0),
                    # magnitude edges increase, bins narrower than 20 units; mx is the largest edge
                    z3.ForAll([a, b], z3.Implies(z3.And(0 <= a, a < b, b < n1), mags.f((a,)) < mags.f((b,))), patterns=[z3.MultiPattern(mags.f((a,)), mags.f((b,)))]),
                    to_real(mags.f((z3.IntVal(1),))) - to_real(mags.f((z3.IntVal(0),))) < 20, mx == mags.f((n1 - 1,)),
                    # the synthetic catalogs hold at least one event in all (the union histogram is not empty)
                    z3.ForAll([s_, i], z3.Implies(z3.And(0 <= s_, s_ < J, 0 <= i, i < n1), MCF(key(s_), i) >= 0), patterns=[MCF(key(s_), i)]),
                    # generator states of the second pass: RSTATE(0) is the state at entry (after seeding, if a seed is given) and every
                    # resample is one draw call
                    RSTATE(0) == st0, z3.ForAll([i], RSTATE(i + 1) == RNG_NEXT(RSTATE(i)), patterns=[RSTATE(i + 1)])]

        def ensures(c, r, forecast, observed_catalog, verbose, seed, _v):
            obs, n1, J, mags, N = _v['obs'], _v['n1'], _v['J'], _v['mags'], _v['N']
            n_ev = observed_catalog.fields['event_count']
            yield 'returns a result object', z3.BoolVal(isinstance(r, Obj))
            st, os_, q, td = (r.fields.get(k) for k in ('status', 'observed_statistic', 'quantile', 'test_distribution'))
            if st == 'not-valid':
                yield "'not-valid' only for an empty observed catalog", n_ev == 0
                yield "'not-valid': no statistic and no quantile", z3.BoolVal(os_ is None and q == (None, None))
                return
            yield 'status normal', z3.BoolVal(st == 'normal')
            yield 'a statistic is reported only for a non-empty observed catalog', n_ev != 0
            yield 'test distribution is a list', z3.BoolVal(isinstance(td, SymList))
            if isinstance(td, SymList):
                yield 'one entry per synthetic catalog (each the statistic of a catalog of exactly N events resampled from the union ' \
                      'histogram: loop invariant)', to_z3(td.n) == J
            # observed statistic: against the union histogram of ALL synthetic catalogs, scaled to the observed number of events
            from pyvc.contracts import pointwise_sum_hint
            from contracts.order import find_apps
            key = (lambda k: FILT(SRC(k))) if apply_filters else (lambda k: SRC(k))
            jj = z3.Int('j!union')      # (not the bound variable of the sums over the bins)
            U = lambda k: SUM(z3.Lambda([jj], MCF(key(jj), to_z3(k))), J)
            n_obs = _rsum(lambda k: obs.f((k,)), n1)
            n_union = _rsum(lambda k: U(k), n1)
            osz = to_real(os_)
            for st_ in find_apps(osz, 'SUM'):
                if st_.arg(1).eq(to_z3(n1)) and not st_.eq(n_obs):
                    h = pointwise_sum_hint(c, 'the number of events of the union is the sum over all catalogs and bins', st_, U, n1)
                    if h and not st_.eq(osz):
                        yield h

            def obs_term(k):
                a = LOG10(U(k) * (n_obs / n_union) + 1)
                b = LOG10(to_real(obs.f((k,))) + 1)
                return (a - b) * (a - b)
            h = pointwise_sum_hint(c, 'the summands of the observed statistic agree bin by bin', osz, obs_term, n1)
            if h and z3.is_app(osz) and osz.decl().name() == 'SUM':
                # the same summand with the code's union array replaced by the union over all catalogs (two equalities, then
                # substitution of equals), so that the comparison with the spec summand is syntactic
                G = None
                try:
                    impl = h[1]
                    G = impl.arg(1).arg(0) if z3.is_implies(impl) else None
                    rng_ = impl.arg(0)
                except Exception:
                    G = None
                if G is not None:
                    ucalls = []
                    _find_decl_prefix(G, 'union_so_far', ucalls)
                    subs, eqs = [], []
                    for u_ in ucalls:
                        if u_.num_args() == 1 and not z3.is_var(u_.arg(0)) and 'lam' not in str(u_.arg(0)):
                            subs.append((u_, U(u_.arg(0))))
                            eqs.append(u_ == U(u_.arg(0)))
                    for st_ in find_apps(G, 'SUM'):
                        if st_.arg(1).eq(to_z3(n1)) and not st_.eq(n_obs) and 'union_so_far' in str(st_):
                            subs.append((st_, n_union))
                            eqs.append(st_ == n_union)
                    if subs:
                        G2 = z3.substitute(G, *subs)
                        yield 'hint:the union array of the code is the union over all catalogs (at this bin, and in total)', z3.Implies(rng_, z3.And(*eqs))
                        yield 'hint:the code summand with the union written out', z3.Implies(rng_, G == G2)
                yield h
            elif h:
                yield h
            yield 'observed statistic == sum_k (log10(union_k * N / N_union + 1) - log10(observed_k + 1))^2, union over ALL synthetic catalogs', \
                osz == _rsum(obs_term, n1)
            calls = c.calls(GQ)
            yield 'quantiles come from get_quantiles (one call)', z3.BoolVal(len(calls) == 1)
            if calls:
                loc, out = calls[0][1], calls[0][2]
                yield 'quantile == (delta_1, delta_2)', z3.BoolVal(isinstance(q, tuple) and len(q) == 2 and q[0] is out[0] and q[1] is out[1])
                yield 'evaluated at the observed statistic', z3.BoolVal(loc['obs_count'] is os_)

        def raises(c, exc, forecast, observed_catalog, verbose, seed, _v):
            return None
    RT.__name__ = 'ResampledMagnitudeTest_%s_%s' % (apply_filters, seeded)
    return RT


for _af in (False, True):
    for _sd in (False, True):
        REG.add(resampled_case(_af, _sd))
