"""Contracts for the catalog-based consistency tests (csep/core/catalog_evaluations.py) - property C10.
The loop `for i, catalog in enumerate(forecast)` is cut by the PASS invariant of contracts/catforecast.py."""
import z3

from pyvc.contracts import contract, REG
from pyvc.core import Arr, Obj, SymList, simp, to_real, to_z3
from pyvc import spec
import contracts.stats
from contracts.catforecast import PassInv, _list_forecast, EC, FILT, SRC, mk_cat

CE = 'csep.core.catalog_evaluations.'
GQ = 'csep.utils.stats.get_quantiles'


class NumberLoop(PassInv):
    """event_counts holds the sizes of the catalogs of the pass seen so far, in order"""

    def havoc(self, I, fr, i, it):
        fo = self.forecast(it)
        fr.locals['event_counts'] = SymList(to_z3(i), lambda j: EC(self.pass_key(fo, j)), 'event_counts')

    def inv(self, I, fr, i, it):
        yield from PassInv.inv(self, I, fr, i, it)
        fo = self.forecast(it)
        lst = fr.locals['event_counts']
        n_l = to_z3(lst.n) if isinstance(lst, SymList) else z3.IntVal(len(lst))
        yield 'one count per catalog seen', n_l == to_z3(i)
        if isinstance(lst, list):
            return
        if self.mode == 'prove':
            j = I.ctx.fresh_int('j!sk')
            yield 'entry j is the size of catalog j of the pass (configured filters applied)', z3.Implies(
                z3.And(0 <= j, j < to_z3(i)), to_z3(lst.f(j)) == EC(self.pass_key(fo, j)))


def number_case(apply_filters):
    class NT:
        qualname = CE + 'number_test'
        case = 'list-backed catalog forecast, apply_filters=%s' % apply_filters
        properties = ('C10',)
        loops = {0: NumberLoop()}

        def params(c):
            fo, J, nE = _list_forecast(c, apply_filters, min_magnitude=c.real('min_mw'))
            obs = c.obj(None, event_count=c.int('n_obs'), name='obs')
            obs.as_str = lambda I: 'observed catalog'
            return dict(forecast=fo, observed_catalog=obs, verbose=False, _J=J)

        def requires(c, forecast, observed_catalog, verbose, _J):
            return [observed_catalog.fields['event_count'] >= 0]

        def ensures(c, r, forecast, observed_catalog, verbose, _J):
            key = (lambda k: FILT(SRC(k))) if apply_filters else (lambda k: SRC(k))
            n_obs = observed_catalog.fields['event_count']
            yield 'returns a result object', z3.BoolVal(isinstance(r, Obj))
            td = r.fields.get('test_distribution')
            yield 'test distribution: one entry per synthetic catalog', z3.BoolVal(isinstance(td, SymList))
            if isinstance(td, SymList):
                yield 'number of entries == number of catalogs', to_z3(td.n) == _J
                j = c.ctx.fresh_int('j!sk')
                yield 'entry j == number of events of synthetic catalog j', z3.Implies(
                    z3.And(0 <= j, j < _J), to_z3(td.f(j)) == EC(key(j)))
            yield 'observed statistic == number of observed events', to_z3(r.fields.get('observed_statistic')) == n_obs
            calls = c.calls(GQ)
            yield 'quantiles come from the empirical distribution of the catalog sizes (one call)', z3.BoolVal(len(calls) == 1)
            if calls:
                loc, out = calls[0][1], calls[0][2]
                q = r.fields.get('quantile')
                yield 'quantile == (delta_1, delta_2) of get_quantiles(sizes, n_obs)', z3.BoolVal(
                    isinstance(q, tuple) and len(q) == 2 and q[0] is out[0] and q[1] is out[1])
                sc = loc['sim_counts']
                k = c.ctx.fresh_int('k!sk')
                yield 'the empirical distribution is that of the catalog sizes', z3.And(
                    to_z3(sc.shape[0]) == _J, z3.Implies(z3.And(0 <= k, k < _J), to_z3(sc.f((k,))) == EC(key(k))))
                yield 'evaluated at the observed count', to_real(loc['obs_count']) == z3.ToReal(n_obs)
            yield 'status / names', z3.BoolVal(r.fields.get('status') == 'normal' and r.fields.get('name') == 'Catalog N-Test'
                                               and r.fields.get('sim_name') == 'fc' and r.fields.get('obs_name') == 'obs')
    NT.__name__ = 'CatalogNumberTest_%s' % apply_filters
    return NT


for _af in (False, True):
    REG.add(number_case(_af))
