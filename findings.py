"""witness-class predicates of the open known findings (known_findings.json): a violation matches an open
finding only if its oracle is listed AND the predicate holds for its arguments; anything else is a new violation"""
import itertools


def _flat(x):
    if isinstance(x, dict) and '__ndarray__' in x:
        x = x['__ndarray__']
    if isinstance(x, (list, tuple)):
        out = []
        for v in x:
            out += _flat(v)
        return out
    return [x]


def d14_event_in_zero_rate_bin(args, rec):
    """binary log-likelihood with an event in a bin whose rate is <= 0 (masked by design)"""
    msg = ' '.join((rec.get('replay') or {}).get('violated_clauses') or [])
    if 'definition gives -inf' not in msg:
        return False
    rates = args.get('rates')
    counts = args.get('counts')
    if rates is not None and counts is not None:
        r, c = _flat(rates), _flat(counts)
        return len(r) == len(c) and any(float(a) <= 0 and float(b) > 0 for a, b in zip(r, c))
    if rates is not None:
        return any(float(a) <= 0 for a in _flat(rates))
    return False
