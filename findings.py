"""witness-class predicates of the open known findings (known_findings.json): a violation matches an open
finding only if its oracle is listed AND the predicate holds for its arguments; anything else is a new violation"""
import itertools


def _flat(x):
    if isinstance(x, dict) and '__ndarray__' in x:
        x = x['__ndarray__']
    if isinstance(x, (list, tuple)):
        out = []
        for v in x:
            out += _flat(v)
        return out
    return [x]


def d14_event_in_zero_rate_bin(args, rec):
    """binary log-likelihood with an event in a bin whose rate is <= 0 (masked by design)"""
    msg = ' '.join((rec.get('replay') or {}).get('violated_clauses') or [])
    if 'definition gives -inf' not in msg:
        return False
    # only the BINARY likelihood: the same symptom in the Poisson tests is a different (new) violation
    orc = rec.get('oracle')
    if orc == 'sim_test_ndarray' and args.get('kind') != 'binary':
        return False
    if orc == 'gridded_test' and args.get('test') not in ('bS', 'bCL'):
        return False
    if orc not in ('binary_jll_ndarray', 'sim_test_ndarray', 'gridded_test'):
        return False
    rates = args.get('rates')
    counts = args.get('counts')
    if rates is not None and counts is not None:
        r, c = _flat(rates), _flat(counts)
        return len(r) == len(c) and any(float(a) <= 0 and float(b) > 0 for a, b in zip(r, c))
    if rates is not None:
        return any(float(a) <= 0 for a in _flat(rates))
    return False


def mll_sign(args, rec):
    """MLL statistic has the sign of +2 log[...] (code, unit tests) where theory.rst says -2 log[...]"""
    msg = ' '.join((rec.get('replay') or {}).get('violated_clauses') or [])
    return args.get('test') == 'MLL_magnitude_test' and ('sign' in msg.lower() or 'MLL' in msg)


def horus_subsecond(args, rec):
    """ingv_horus drops the hundredths of a second (int(second)); pinned by tests/test_ingv_readers.py::test_cat_horus"""
    if args.get('fmt') != 'ingv_horus':
        return False
    import re
    msgs = (rec.get('replay') or {}).get('violated_clauses') or []
    for m in msgs:
        mm = re.search(r'origin_time (-?\d+) .*required (-?\d+)', m)
        if not mm:
            return False
        got, req = int(mm.group(1)), int(mm.group(2))
        # only the fractional part is lost: same whole second
        if not (0 <= req - got < 1000 and got % 1000 == 0):
            return False
    return bool(msgs)


def quadtree_drops_outside_points(args, rec):
    """QuadtreeGrid2D.get_index_of returns no entry for a point outside of the grid (pinned by
    tests/test_spatial.py::TestQuadtreeGrid2D::test_wrong_coordinates)"""
    msgs = (rec.get('replay') or {}).get('violated_clauses') or []
    if not msgs:
        return False
    return all(('get_index_of returned' in m and 'indices' in m and '-1 = outside the grid' in m and '-1' in m.split('cells required:')[-1])
               for m in msgs)
